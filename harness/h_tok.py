"""E1 harness for C13 (token geometry) and C05 (tokenizer termination / error family).

Parameters (env XH_PARAMS, JSON):
  dialect   tokenizer group representative
  pre, post concrete context around the symbolic hole:  sql = pre + h + post
  minlen, maxlen   bound on len(h)
  mode      "geom" (C13) | "term" (C05)
  exclude   substrings of h that put the input into a listed known-finding region
  exclude_exact  exact values of h excluded after a non-reproducing counterexample
  allow_shared_spans  (geom) tolerate the documented numeric-suffix expansion (known finding region)
"""
from __future__ import annotations

import json
import os

from sqlglot.dialects.dialect import Dialect
from sqlglot.errors import TokenError
from sqlglot.tokenizer_core import TokenizerCore
from sqlglot.tokens import TokenType

P = json.loads(os.environ.get("XH_PARAMS", "{}"))
DIALECT = P.get("dialect", "")
PRE = P.get("pre", "")
POST = P.get("post", "")
MINLEN = int(P.get("minlen", 0))
MAXLEN = int(P.get("maxlen", 1))
MODE = P.get("mode", "geom")
EXCLUDE = list(P.get("exclude", []))
EXCLUDE_EXACT = list(P.get("exclude_exact", []))
EXCLUDE_SQL = list(P.get("exclude_sql", []))
ALLOW_SUFFIX_EXPANSION = bool(P.get("allow_suffix_expansion", False))
ALLOW_MARKER_TOKENS = bool(P.get("allow_marker_tokens", False))  # regions expressed on the whole text (substring of sql)

D = Dialect.get_or_raise(DIALECT or None)
TOK = D.tokenizer()
CORE = TOK._core
COMMENT_PAIRS = sorted(CORE.comments.items(), key=lambda kv: -len(kv[0]))


def _sigma() -> str:
    """The alphabet of the hole: every character that occurs in any table of this tokenizer (delimiters,
    escapes, comment markers, single tokens, prefixes, non-alphanumeric keyword characters), the characters of
    the context, and one representative of each remaining class the scanner distinguishes."""
    chars = set("aeExbn019_ \t\n\r\x00\u00e9\u00a0")
    for tab in (CORE.quotes, CORE.identifiers, CORE.comments, CORE.unescaped_sequences, CORE.numeric_literals):
        for k, v in tab.items():
            chars.update(k)
            if isinstance(v, str):
                chars.update(v)
    for k, (e, _t) in CORE.format_strings.items():
        chars.update(k)
        chars.update(e)
    for tab in (CORE.string_escapes, CORE.byte_string_escapes, CORE.identifier_escapes, CORE.escape_follow_chars,
                CORE.var_single_tokens, CORE.single_tokens.keys()):
        for k in tab:
            chars.update(k)
    chars.update(CORE.hint_start or "")
    for kw in CORE.keywords:
        for c in kw:
            if not c.isalnum() and c != " " and c != "_":
                chars.add(c)
    chars.update(PRE)
    chars.update(POST)
    return "".join(sorted(chars))


SIGMA = P.get("sigma") or _sigma()

from engines.xh import alpha  # noqa: E402

alpha.install(SIGMA)


def in_bounds(h: str) -> bool:
    if not (MINLEN <= len(h) <= MAXLEN):
        return False
    for c in h:
        if c not in SIGMA:
            return False
    for sub in EXCLUDE:
        if sub in h:
            return False
    for ex in EXCLUDE_EXACT:
        if h == ex:
            return False
    if EXCLUDE_SQL:
        sql = PRE + h + POST
        for sub in EXCLUDE_SQL:
            if sub in sql:
                return False
    return True


# ------------------------------------------------------------------------------------------ C13
def expect_pos(sql: str, k: int):
    """(line, col) of the character at offset k under the tokenizer's own line-break convention:
    a break is '\\n', or '\\r' not followed by '\\n'; col counts characters since the last break."""
    line = 1
    last = -1
    for j in range(k):
        c = sql[j]
        if c == "\n" or (c == "\r" and sql[j + 1 : j + 2] != "\n"):
            line += 1
            last = j
    return line, k - last


def geometry(sql: str) -> str:
    """Returns "ok" (or "tokenerror") when the geometry contract holds, otherwise a short reason."""
    try:
        toks = TOK.tokenize(sql)
    except TokenError as e:
        return token_error_geometry(sql, e)
    n = len(sql)
    prev_end = -1
    rest = []
    comments = []
    prev = None
    for t in toks:
        if ALLOW_MARKER_TOKENS and t.text == "" and t.token_type == TokenType.HIVE_TOKEN_STREAM:
            # listed known finding: Athena prepends a synthetic marker token with default offsets (0, 0)
            continue
        if not (0 <= t.start <= t.end < n):
            return "range"
        if ALLOW_SUFFIX_EXPANSION and prev is not None and t.start == prev.start and t.end == prev.end and (
            (t.token_type == TokenType.DCOLON and t.text == "::" and prev.token_type == TokenType.NUMBER)
            or (prev.token_type == TokenType.DCOLON and prev.text == "::" and t.text.upper() in CORE.numeric_literals)
        ):
            # listed known finding: `1L` is expanded to NUMBER `::` TYPE, three tokens sharing one span
            prev = t
            continue
        prev = t
        if t.start <= prev_end:
            return "overlap"
        rest.append(sql[prev_end + 1 : t.start])
        prev_end = t.end
        if (t.line, t.col) != expect_pos(sql, t.end):
            return "linecol"
        if t.token_type != TokenType.HINT:
            comments.extend(t.comments)
        if t.token_type == TokenType.VAR and t.text != sql[t.start : t.end + 1]:
            return "vartext"
    rest.append(sql[prev_end + 1 :])
    gap = "".join(rest)
    if not toks:
        # with no token at all the tokenizer drops the comments it scanned; only require the text to be
        # white-space and comments by an independent scan
        return "ok" if only_space_and_comments(gap) else "gap-no-tokens"
    i = 0
    ci = 0
    while i < len(gap):
        if gap[i].isspace():
            i += 1
            continue
        if ci >= len(comments):
            return "gap-extra"
        c = comments[ci]
        matched = False
        for s_, e_ in COMMENT_PAIRS:
            if gap.startswith(s_, i) and gap.startswith(c, i + len(s_)):
                j = i + len(s_) + len(c)
                if e_ is None:
                    i = j
                    matched = True
                    break
                if gap.startswith(e_, j):
                    i = j + len(e_)
                    matched = True
                    break
        if not matched:
            return "gap-comment-mismatch"
        ci += 1
    # Comments carried by tokens but not found between them are not a violation: the property constrains the text
    # BETWEEN tokens only (e.g. `CALL # x` keeps the comment inside the command's STRING span as well).
    return "ok"


def only_space_and_comments(text: str) -> bool:
    i = 0
    n = len(text)
    while i < n:
        if text[i].isspace():
            i += 1
            continue
        matched = False
        for s_, e_ in COMMENT_PAIRS:
            if text.startswith(s_, i):
                if e_ is None:
                    j = i + len(s_)
                    while j < n and text[j] not in "\r\n":
                        j += 1
                    i = j
                else:
                    j = text.find(e_, i + len(s_))
                    if j < 0:
                        return False
                    i = j + len(e_)
                matched = True
                break
        if not matched:
            return False
    return True


def token_error_geometry(sql: str, e: TokenError) -> str:
    """TokenError.start/.end must select a slice of the input that appears in the message."""
    s, en = getattr(e, "start", None), getattr(e, "end", None)
    if s is None or en is None:
        return "tokenerror"  # errors raised inside the scanner carry no offsets; nothing to check
    if not (0 <= s <= len(sql) and s <= max(en, s)):
        return "tokenerror-range"
    if en > len(sql):
        return "tokenerror-range"
    if str(e) != "Error tokenizing '" + sql[s:en] + "'":
        return "tokenerror-context"
    return "tokenerror"


# ------------------------------------------------------------------------------------------ C05
_COUNTED = ("_advance", "_chars", "_add", "_scan", "_scan_keywords", "_scan_comment", "_scan_number", "_scan_bits",
            "_scan_hex", "_extract_value", "_scan_string", "_scan_identifier", "_scan_var", "_extract_string")
_steps = [0]
_BUDGET = [0]


class StepBudgetExceeded(BaseException):
    pass


def _install_counters():
    if getattr(TokenizerCore, "_verif_counted", False):
        return
    for name in _COUNTED:
        orig = getattr(TokenizerCore, name, None)
        if orig is None:
            continue

        def make(orig):
            def counted(self, *a, **kw):
                _steps[0] += 1
                if _BUDGET[0] and _steps[0] > _BUDGET[0]:
                    raise StepBudgetExceeded()
                return orig(self, *a, **kw)

            counted.__name__ = orig.__name__
            return counted

        setattr(TokenizerCore, name, make(orig))
    TokenizerCore._verif_counted = True


if MODE == "term":
    _install_counters()


def termination(sql: str) -> str:
    n = len(sql)
    _steps[0] = 0
    _BUDGET[0] = 64 * (n + 1) * (n + 1)
    try:
        toks = TOK.tokenize(sql)
    except TokenError:
        return "ok"
    except StepBudgetExceeded:
        return "step-budget"
    except Exception as e:  # anything outside the library's own error family
        return "leak:" + type(e).__name__
    finally:
        _BUDGET[0] = 0
    if not isinstance(toks, list):
        return "not-a-list"
    return "ok"


def verdict(h: str) -> str:
    sql = PRE + h + POST
    return geometry(sql) if MODE == "geom" else termination(sql)


def check(h: str) -> bool:
    return verdict(h) in ("ok", "tokenerror")


def explain(h: str) -> str:
    sql = PRE + h + POST
    try:
        toks = [(t.token_type.name, t.text, t.line, t.col, t.start, t.end, t.comments) for t in TOK.tokenize(sql)]
    except Exception as e:
        toks = "raises " + type(e).__name__ + ": " + str(e)[:160]
    return f"dialect={DIALECT or 'base'} mode={MODE} sql={sql!r} verdict={verdict(h)} tokens={toks!r}"


def prop(h: str) -> bool:
    """
    pre: in_bounds(h)
    post: _ == True
    """
    return check(h)


def twin(h: str) -> bool:
    """
    pre: in_bounds(h)
    post: False
    """
    return check(h)
