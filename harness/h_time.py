"""E1 harness for C01 (partial): time-format strings and number lexemes come back unchanged.

Parameters: dialect, mode ("time" | "number"), minlen, maxlen, exclude (substrings), exclude_exact.

time:   p = format_time(., TIME_MAPPING)  (what the dialect's parser applies to a format literal)
        g = format_time(., INVERSE_TIME_MAPPING)  (what its generator applies)
        unit-level assertion: g(p(g(p(s)))) == g(p(s))   -- the second round trip reproduces the first output.
        The unit assertion is stricter than the API-level statement; `replay` therefore goes through
        sqlglot.transpile(read=d, write=d) for every function of the dialect that carries a format string and
        only a difference there counts.
number: for a lexeme n that the tokenizer accepts as a single NUMBER token, SELECT <n> generated from the parsed
        literal tokenizes again to the same NUMBER text (normalisation of 1_000, 1e5, ... is idempotent).
"""
from __future__ import annotations

import json
import os

from sqlglot import exp
from sqlglot.dialects.dialect import Dialect
from sqlglot.errors import TokenError
from sqlglot.time import format_time
from sqlglot.tokens import TokenType

P = json.loads(os.environ.get("XH_PARAMS", "{}"))
DIALECT = P.get("dialect", "")
MODE = P.get("mode", "time")
MINLEN = int(P.get("minlen", 1))
MAXLEN = int(P.get("maxlen", 3))
EXCLUDE = list(P.get("exclude", []))
EXCLUDE_EXACT = list(P.get("exclude_exact", []))

D = Dialect.get_or_raise(DIALECT or None)
TM, TT = D.TIME_MAPPING, D.TIME_TRIE
IM, IT = D.INVERSE_TIME_MAPPING, D.INVERSE_TIME_TRIE
GEN = D.generator()
TOK = D.tokenizer()
IM_NONTRIVIAL = any(k != v for k, v in IM.items())
EXCLUDE_PASSTHROUGH = bool(P.get("exclude_passthrough", False))
_MARK = "\x00"
_COVER = {k: _MARK * len(k) for k in TM}
_KEYCHARS = "".join(sorted(set("".join(TM.keys()) + "".join(IM.keys()))))

if MODE == "number":
    from engines.xh import alpha

    SIGMA = "".join(sorted(set("019.eE_+-xb " + "".join(TOK._core.numeric_literals.keys()))))
    alpha.install(SIGMA)
else:
    SIGMA = None


def in_bounds(s: str) -> bool:
    if not (MINLEN <= len(s) <= MAXLEN):
        return False
    if SIGMA is not None:
        for c in s:
            if c not in SIGMA:
                return False
    for sub in EXCLUDE:
        if sub in s:
            return False
    for ex in EXCLUDE_EXACT:
        if s == ex:
            return False
    if EXCLUDE_PASSTHROUGH and has_passthrough(s):
        return False
    return True


def has_passthrough(s: str) -> bool:
    """Known-finding region 'juxtaposition': the format contains an alphanumeric or '%' character that is not part of
    any format element matched in it (it passes through the parse direction as literal text) although the character occurs
    in some format element of the dialect  Computed with the real
    format_time over the dialect's own trie, each element replaced by NUL marks."""
    if not TM:
        return False
    covered = format_time(s, _COVER, TT) or ""
    for c in covered:
        if c != _MARK and c in _KEYCHARS:
            return True
    return False


def parse_dir(s: str):
    return format_time(s, TM, TT)


def gen_dir(s: str):
    return format_time(s, IM, IT)


def roundtrip(s: str):
    """One parse->generate round trip of a format literal whose content is `s`, as a formatted-time function does it:
    Dialect.format_time maps Literal.this through TIME_MAPPING; Generator.format_time maps the *quoted SQL text* of the
    literal through INVERSE_TIME_MAPPING; the result is SQL text that is tokenized again.  Returns the content of the
    string literal in the generated SQL, or None when this model does not apply (empty / not a single string token)."""
    u = parse_dir(s)
    if not u:
        return None
    # cheap model of the quoting: the generator maps the quoted literal, so the text never ends inside a trie prefix;
    # escaping of quotes/backslashes inside the literal is not modelled here (the API-level replay decides)
    out = gen_dir("'" + u + "'")
    if not out or len(out) < 2:
        return None
    return out[1:-1]


def check_time(s: str) -> bool:
    s1 = roundtrip(s)
    if s1 is None:
        return True
    if not TM and not IM_NONTRIVIAL:
        # no mapping in either direction (base dialect): the format must come back unchanged
        return s1 == s
    s2 = roundtrip(s1)
    if s2 is None:
        return False
    return s2 == s1


def check_number(s: str) -> bool:
    try:
        toks = TOK.tokenize(s)
    except TokenError:
        return True
    if len(toks) != 1 or toks[0].token_type != TokenType.NUMBER:
        return True
    text = toks[0].text
    out = GEN.generate(exp.Literal.number(text))
    try:
        toks2 = TOK.tokenize(out)
    except TokenError:
        return False
    return len(toks2) == 1 and toks2[0].token_type == TokenType.NUMBER and toks2[0].text == text


def check(s: str) -> bool:
    return check_time(s) if MODE == "time" else check_number(s)


# ---------------------------------------------------------------------------------- API-level replay
_FMT_FUNCS = None


def _format_functions():
    """Function names of this dialect whose parser maps a format literal through TIME_MAPPING (discovered by probing)."""
    global _FMT_FUNCS
    if _FMT_FUNCS is not None:
        return _FMT_FUNCS
    import sqlglot

    found = []
    names = sorted(n for n in D.parser_class.FUNCTIONS if n.replace("_", "").isalnum())
    probe = next(iter(TM), None)
    for name in names:
        for order in ("xf", "fx"):
            if probe is None:
                break
            lit = exp.Literal.string(probe).sql(dialect=D)
            q = f"SELECT {name}(x, {lit})" if order == "xf" else f"SELECT {name}({lit}, x)"
            try:
                tree = sqlglot.parse_one(q, read=D)
            except Exception:
                continue
            hit = False
            for node in tree.walk():
                f = node.args.get("format") if hasattr(node, "args") else None
                if isinstance(f, exp.Literal) and f.is_string and f.this != probe:
                    hit = True
            if hit:
                found.append((name, order))
    _FMT_FUNCS = found
    return found


def replay(s: str):
    """-> (holds, detail): the statement-level criterion through the public API."""
    import sqlglot

    if MODE == "number":
        q = "SELECT " + s
        try:
            s1 = sqlglot.transpile(q, read=D, write=D)[0]
        except Exception:
            return True, "does not parse"
        try:
            s2 = sqlglot.transpile(s1, read=D, write=D)[0]
        except Exception as e:
            return False, f"dialect={DIALECT or 'base'} {q!r} -> {s1!r} which does not parse again: {type(e).__name__}"
        return s1 == s2, f"dialect={DIALECT or 'base'} {q!r} -> {s1!r} -> {s2!r}"
    lit = exp.Literal.string(s).sql(dialect=D)
    funcs = _format_functions() if TM else [("TIME_TO_STR", "xf"), ("STR_TO_TIME", "xf")]
    for name, order in funcs:
        q = f"SELECT {name}(x, {lit})" if order == "xf" else f"SELECT {name}({lit}, x)"
        try:
            s1 = sqlglot.transpile(q, read=D, write=D)[0]
            s2 = sqlglot.transpile(s1, read=D, write=D)[0]
        except Exception:
            continue
        if s1 != s2:
            return False, f"dialect={DIALECT or 'base'}: {q!r} -> {s1!r} -> {s2!r} (not a fixpoint)"
        if not TM and not IM_NONTRIVIAL:
            fmts = [n.args["format"].this for n in sqlglot.parse_one(s1, read=D).walk()
                    if isinstance(n.args.get("format"), exp.Literal)]
            if fmts and fmts[0] != s:
                return False, f"base dialect: {q!r} -> {s1!r} (format literal changed from {s!r} to {fmts[0]!r})"
    return True, f"unit-level deviation not observable through transpile (functions tried: {len(funcs)})"


def prop(s: str) -> bool:
    """
    pre: in_bounds(s)
    post: _ == True
    """
    return check(s)


def twin(s: str) -> bool:
    """
    pre: in_bounds(s)
    post: False
    """
    return check(s)
