"""E1 harness for C13 (second family): highlight arithmetic and Parser.raise_error positions.

Parameters: maxlen (len(sql) bound), maxctx (context_length upper bound = maxlen + 2 by default).
`sql` is a symbolic string (its characters are never inspected by the code under test); s, e, ctx are symbolic
integers that CrossHair realises one value at a time because they are used as slice bounds (DESIGN 2).
"""
from __future__ import annotations

import json
import os

from sqlglot.dialects.dialect import Dialect
from sqlglot.errors import ANSI_RESET, ANSI_UNDERLINE, ErrorLevel, ParseError, highlight_sql
from sqlglot.parser import Parser
from sqlglot.tokens import Token, TokenType

P = json.loads(os.environ.get("XH_PARAMS", "{}"))
MAXLEN = int(P.get("maxlen", 6))
MAXCTX = int(P.get("maxctx", MAXLEN + 2))
EXCLUDE_EXACT = list(P.get("exclude_exact", []))
_D = Dialect.get_or_raise(None)


def in_bounds_hl(sql: str, s: int, e: int, ctx: int) -> bool:
    return 1 <= len(sql) <= MAXLEN and 0 <= s <= e < len(sql) and 0 <= ctx <= MAXCTX and \
        {"sql": sql, "s": s, "e": e, "ctx": ctx} not in EXCLUDE_EXACT


def check_hl(sql: str, s: int, e: int, ctx: int) -> bool:
    formatted, start_context, highlight, end_context = highlight_sql(sql, [(s, e)], ctx)
    return (
        highlight == sql[s : e + 1]
        and start_context == sql[max(0, s - ctx) : s]
        and end_context == sql[e + 1 : e + 1 + ctx]
        and formatted == start_context + ANSI_UNDERLINE + highlight + ANSI_RESET + end_context
    )


def prop_hl(sql: str, s: int, e: int, ctx: int) -> bool:
    """
    pre: in_bounds_hl(sql, s, e, ctx)
    post: _ == True
    """
    return check_hl(sql, s, e, ctx)


def twin_hl(sql: str, s: int, e: int, ctx: int) -> bool:
    """
    pre: in_bounds_hl(sql, s, e, ctx)
    post: False
    """
    return check_hl(sql, s, e, ctx)


_TEXT = "SELECT a + FROM t WHERE x"
_LINECOL = [(1, 1), (2, 5), (12, 340)]


def in_bounds_err(n: int, s: int, e: int, ctx: int, line: int, col: int, immediate: bool) -> bool:
    return (1 <= n <= MAXLEN and 0 <= s <= e < n and 0 <= ctx <= n + 1 and (line, col) in _LINECOL
            and {"n": n, "s": s, "e": e, "ctx": ctx, "line": line, "col": col, "immediate": immediate} not in EXCLUDE_EXACT)


def check_err(n: int, s: int, e: int, ctx: int, line: int, col: int, immediate: bool) -> bool:
    sql = _TEXT[:n]
    tok = Token(TokenType.VAR, text=sql[s : e + 1], line=line, col=col, start=s, end=e)
    p = Parser(error_level=ErrorLevel.IMMEDIATE if immediate else ErrorLevel.RAISE, error_message_context=ctx, dialect=_D)
    p.sql = sql
    p._tokens = [tok]
    p._tokens_size = 1
    p._index = -1
    p._advance()
    err = None
    try:
        p.raise_error("boom")
        if immediate:
            return False
        err = p.errors[0]
    except ParseError as ex:
        if not immediate:
            return False
        err = ex
    d = err.errors[0]
    return (
        d["line"] == line
        and d["col"] == col
        and d["description"] == "boom"
        and d["highlight"] == sql[s : e + 1]
        and d["start_context"] == sql[max(0, s - ctx) : s]
        and d["end_context"] == sql[e + 1 : e + 1 + ctx]
        and str(err) == "boom. Line " + str(line) + ", Col: " + str(col) + ".\n  " + d["start_context"] + ANSI_UNDERLINE
        + d["highlight"] + ANSI_RESET + d["end_context"]
    )


def prop_err(n: int, s: int, e: int, ctx: int, line: int, col: int, immediate: bool) -> bool:
    """
    pre: in_bounds_err(n, s, e, ctx, line, col, immediate)
    post: _ == True
    """
    return check_err(n, s, e, ctx, line, col, immediate)


def twin_err(n: int, s: int, e: int, ctx: int, line: int, col: int, immediate: bool) -> bool:
    """
    pre: in_bounds_err(n, s, e, ctx, line, col, immediate)
    post: False
    """
    return check_err(n, s, e, ctx, line, col, immediate)


def check(**kw) -> bool:
    if "line" in kw:
        return check_err(**kw)
    return check_hl(**kw)


def in_bounds(**kw) -> bool:
    if "line" in kw:
        return in_bounds_err(**kw)
    return in_bounds_hl(**kw)


def explain(**kw) -> str:
    if "line" in kw:
        return "raise_error positions wrong for " + repr(kw)
    return "highlight_sql" + repr((kw["sql"], [(kw["s"], kw["e"])], kw["ctx"])) + " = " + repr(highlight_sql(kw["sql"], [(kw["s"], kw["e"])], kw["ctx"]))
