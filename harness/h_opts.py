"""E1 harness for C07: generator options never change the meaning of the SQL.

Parameters: dialect, sql (one statement, parsed concretely at import), mode:
  "layout"  pretty=True; max_text_width (any int >= 0), pad, indent in 0..4, leading_comma, comments symbolic
  "flags"   pretty, leading_comma, comments symbolic booleans; identify in {False, True, "safe"},
            normalize_functions in {"upper", "lower", False} chosen by symbolic indices

In the symbolic run the comparison is on the (type, text) token sequence of the output under the dialect's own
tokenizer against the default single-line output (a filter that can be stricter than the property); `replay` applies the
property's own criterion: parse(output) == parse(default output) up to comments / identifier quoting / function-name case.
"""
from __future__ import annotations

import json
import os

try:
    import engines.xh.shim  # noqa: F401
except ImportError:
    pass

from sqlglot import exp
from sqlglot.dialects.dialect import Dialect
from sqlglot.errors import ErrorLevel
from sqlglot.generator import Generator
from sqlglot.tokens import TokenType

P = json.loads(os.environ.get("XH_PARAMS", "{}"))
DIALECT = P.get("dialect", "")
SQL = P.get("sql", "SELECT a, b + 1 AS c FROM t WHERE a IN (1, 2, 3) /* note */ ORDER BY c")
MODE = P.get("mode", "layout")
EXCLUDE_EXACT = list(P.get("exclude_exact", []))

D = Dialect.get_or_raise(DIALECT or None)
TOK = D.tokenizer()
TREE = D.parse(SQL)[0]
DEFAULT_SQL = D.generator(unsupported_level=ErrorLevel.IGNORE).generate(TREE)
SENTINEL = Generator.SENTINEL_LINE_BREAK
IDENTIFY = [False, True, "safe"]
NORMFN = ["upper", "lower", False]
_IDENT_TYPES = (TokenType.IDENTIFIER, TokenType.VAR)


def _norm(toks, ident: bool, fncase: bool):
    out = []
    for t in toks:
        ty, tx = t.token_type, t.text
        if ident and ty in _IDENT_TYPES:
            ty = TokenType.VAR
        if fncase and ty not in (TokenType.STRING, TokenType.IDENTIFIER):
            tx = tx.lower()
        out.append((ty, tx))
    return out


_BASE_TOKS = TOK.tokenize(DEFAULT_SQL)
_BASE = {(i, f): _norm(_BASE_TOKS, i, f) for i in (False, True) for f in (False, True)}


def in_bounds_layout(w: int, pad: int, indent: int, leading_comma: bool, comments: bool) -> bool:
    return 0 <= w and 0 <= pad <= 4 and 0 <= indent <= 4 and \
        {"w": w, "pad": pad, "indent": indent, "leading_comma": leading_comma, "comments": comments} not in EXCLUDE_EXACT


def gen_layout(w: int, pad: int, indent: int, leading_comma: bool, comments: bool) -> str:
    return D.generator(pretty=True, max_text_width=w, pad=pad, indent=indent, leading_comma=leading_comma, comments=comments,
                       unsupported_level=ErrorLevel.IGNORE).generate(TREE)


def _same_tokens(out: str, ident: bool, fncase: bool, comments: bool) -> bool:
    if SENTINEL in out:
        return False
    toks = TOK.tokenize(out)
    if not comments:
        for t in toks:
            if t.comments:
                return False
    return _norm(toks, ident, fncase) == _BASE[(ident, fncase)]


def check_layout(w: int, pad: int, indent: int, leading_comma: bool, comments: bool) -> bool:
    return _same_tokens(gen_layout(w, pad, indent, leading_comma, comments), False, False, comments)


def prop_layout(w: int, pad: int, indent: int, leading_comma: bool, comments: bool) -> bool:
    """
    pre: in_bounds_layout(w, pad, indent, leading_comma, comments)
    post: _ == True
    """
    return check_layout(w, pad, indent, leading_comma, comments)


def twin_layout(w: int, pad: int, indent: int, leading_comma: bool, comments: bool) -> bool:
    """
    pre: in_bounds_layout(w, pad, indent, leading_comma, comments)
    post: False
    """
    return check_layout(w, pad, indent, leading_comma, comments)


def in_bounds_flags(pretty: bool, leading_comma: bool, comments: bool, identify: int, normfn: int) -> bool:
    return 0 <= identify < 3 and 0 <= normfn < 3 and \
        {"pretty": pretty, "leading_comma": leading_comma, "comments": comments, "identify": identify, "normfn": normfn} not in EXCLUDE_EXACT


def gen_flags(pretty: bool, leading_comma: bool, comments: bool, identify: int, normfn: int) -> str:
    return D.generator(pretty=pretty, leading_comma=leading_comma, comments=comments, identify=IDENTIFY[identify],
                       normalize_functions=NORMFN[normfn], unsupported_level=ErrorLevel.IGNORE).generate(TREE)


def check_flags(pretty: bool, leading_comma: bool, comments: bool, identify: int, normfn: int) -> bool:
    out = gen_flags(pretty, leading_comma, comments, identify, normfn)
    return _same_tokens(out, IDENTIFY[identify] is not False, NORMFN[normfn] != D.NORMALIZE_FUNCTIONS, comments)


def prop_flags(pretty: bool, leading_comma: bool, comments: bool, identify: int, normfn: int) -> bool:
    """
    pre: in_bounds_flags(pretty, leading_comma, comments, identify, normfn)
    post: _ == True
    """
    return check_flags(pretty, leading_comma, comments, identify, normfn)


def twin_flags(pretty: bool, leading_comma: bool, comments: bool, identify: int, normfn: int) -> bool:
    """
    pre: in_bounds_flags(pretty, leading_comma, comments, identify, normfn)
    post: False
    """
    return check_flags(pretty, leading_comma, comments, identify, normfn)


# ------------------------------------------------------------------------------ replay: the property's own criterion
def _erase(tree: exp.Expr, ident: bool, fncase: bool) -> exp.Expr:
    tree = tree.copy()
    for n in tree.walk():
        n.comments = None
        if ident and isinstance(n, exp.Identifier):
            n.set("quoted", False)
        if fncase and isinstance(n, exp.Anonymous) and isinstance(n.this, str):
            n.set("this", n.this.lower())
        if fncase and n.meta.get("name"):
            n.meta.pop("name", None)
    return tree


def replay(**kw):
    if "w" in kw:
        out = gen_layout(**kw)
        ident, fncase, comments = False, False, kw["comments"]
    else:
        out = gen_flags(**kw)
        ident, fncase, comments = IDENTIFY[kw["identify"]] is not False, NORMFN[kw["normfn"]] != D.NORMALIZE_FUNCTIONS, kw["comments"]
    where = f"dialect={DIALECT or 'base'} sql={SQL!r} options={kw!r} output={out!r}"
    if SENTINEL in out:
        return False, "output contains the line-break sentinel: " + where
    try:
        got = D.parse(out)
    except Exception as e:
        return False, f"output does not parse ({type(e).__name__}: {str(e)[:100]}): " + where
    if len(got) != 1 or got[0] is None:
        return False, "output parses to a different number of statements: " + where
    if not comments:
        if any(n.comments for n in got[0].walk()):
            return False, "comments=False output still carries comment text: " + where
    ref = D.parse(DEFAULT_SQL)[0]
    a, b = _erase(got[0], ident, fncase), _erase(ref, ident, fncase)
    if a != b:
        return False, f"parses to a different tree than the default output {DEFAULT_SQL!r}: " + where
    return True, "token filter mismatch, but the output parses to the same tree (filter stricter than the property)"


def in_bounds(**kw) -> bool:
    return in_bounds_layout(**kw) if "w" in kw else in_bounds_flags(**kw)


def check(**kw) -> bool:
    return check_layout(**kw) if "w" in kw else check_flags(**kw)
