"""E1 harness for the identifier-normalisation clause of C10.

"Identifier normalisation is idempotent and never alters an identifier that is case-sensitive under the dialect's rules
(quoted ones, except in dialects that fold quoted names)."

Symbolic: the identifier text `name` (over SIGMA, len <= maxlen), its `quoted` flag, and `via`:
  via 0  Dialect.normalize_identifier on a bare Identifier
  via 1  optimizer.normalize_identifiers on a Column(table.name) -- both parts must obey the clause
  via 2  optimizer.normalize_identifiers on a Column whose identifier carries the `case_sensitive` meta marker: unchanged
The dialect (and an optional normalization_strategy setting) is a concrete parameter; its strategy attribute is what "the
dialect's rules" means here: CASE_SENSITIVE never folds, CASE_INSENSITIVE* fold quoted names too, the others fold
unquoted names only.

Stubs: engines/xh/alpha.py (upper/lower exact on SIGMA) plus a table-exact str.translate for symbolic strings.
"""
from __future__ import annotations

import json
import os

try:
    import engines.xh.shim  # noqa: F401
except ImportError:
    pass

from sqlglot import exp
from sqlglot.dialects.dialect import Dialect, NormalizationStrategy
from sqlglot.optimizer.normalize_identifiers import normalize_identifiers

P = json.loads(os.environ.get("XH_PARAMS", "{}"))
DIALECT = P.get("dialect", "")
MAXLEN = int(P.get("maxlen", 3))
MINLEN = int(P.get("minlen", 0))
SIGMA = "".join(sorted(set(P.get("sigma", "aAzZ1_ $éÉß"))))
EXCLUDE_EXACT = list(P.get("exclude_exact", []))

D = Dialect.get_or_raise(DIALECT or None)
STRATEGY = D.normalization_strategy
FOLDS_QUOTED = STRATEGY in (NormalizationStrategy.CASE_INSENSITIVE, NormalizationStrategy.CASE_INSENSITIVE_UPPERCASE)
NEVER_FOLDS = STRATEGY is NormalizationStrategy.CASE_SENSITIVE

from engines.xh import alpha  # noqa: E402

alpha.install(SIGMA)
alpha.install_translate()


def in_bounds(name: str, quoted: bool, via: int) -> bool:
    if not (MINLEN <= len(name) <= MAXLEN) or not (0 <= via <= 2):
        return False
    for c in name:
        if c not in SIGMA:
            return False
    for ex in EXCLUDE_EXACT:
        if name == ex:
            return False
    return True


def str_eq(a, b) -> bool:
    if len(a) != len(b):
        return False
    for x, y in zip(a, b):
        if x != y:
            return False
    return True


def _apply(name, quoted: bool, via: int):
    """-> list of (text_before, quoted_before, Identifier after normalisation, must_be_unchanged)"""
    if via == 0:
        ident = exp.Identifier(this=name, quoted=quoted)
        out = D.normalize_identifier(ident)
        return [(name, quoted, out, False)], (lambda: [D.normalize_identifier(out)])
    a = exp.Identifier(this=name, quoted=quoted)
    b = exp.Identifier(this=name, quoted=not quoted)
    col = exp.Column(this=a, table=b)
    marked = via == 2
    if marked:
        col.meta["case_sensitive"] = True
    normalize_identifiers(col, dialect=D)
    res = [(name, quoted, col.this, marked), (name, not quoted, col.args["table"], marked)]

    def again():
        normalize_identifiers(col, dialect=D)
        return [col.this, col.args["table"]]

    return res, again


def verdict(name: str, quoted: bool, via: int) -> str:
    res, again = _apply(name, quoted, via)
    firsts = []
    for before, q, node, marked in res:
        if not isinstance(node, exp.Identifier):
            return "not-an-identifier"
        if bool(node.args.get("quoted")) != bool(q):
            return "quoted-flag-changed"
        sensitive = marked or NEVER_FOLDS or (q and not FOLDS_QUOTED)
        if sensitive and not str_eq(node.this, before):
            return "case-sensitive-identifier-altered"
        firsts.append(node.this)
    seconds = again()
    for f, node in zip(firsts, seconds):
        if not str_eq(node.this, f):
            return "not-idempotent"
    return "ok"


def check(name: str, quoted: bool, via: int) -> bool:
    return verdict(name, quoted, via) == "ok"


def replay(name: str, quoted: bool, via: int):
    v = verdict(name, quoted, via)
    res, _ = _apply(name, quoted, via)
    return v == "ok", (f"dialect={DIALECT or 'base'} strategy={STRATEGY.name} name={name!r} quoted={quoted} via={via}: {v}; "
                       f"normalised to {[(n.this, bool(n.args.get('quoted'))) for _, _, n, _ in res]!r}")


def prop(name: str, quoted: bool, via: int) -> bool:
    """
    pre: in_bounds(name, quoted, via)
    post: _ == True
    """
    return check(name, quoted, via)


def twin(name: str, quoted: bool, via: int) -> bool:
    """
    pre: in_bounds(name, quoted, via)
    post: False
    """
    return check(name, quoted, via)
