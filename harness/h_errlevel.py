"""E1 harness for C14 (partial): the error funnel of Parser and Generator, driven as units.

All four functions take small symbolic integers / booleans (error level index, number of problems, max_errors,
cursor start, behaviour of the speculative branch); the oracle is the contract of C14 written independently.
Stubs: sqlglot.parser.logger / sqlglot.generator.logger are replaced by a list-appending object (the real logging
machinery under tracing did not finish in 400 s, DESIGN 3); messages come from a concrete list.
"""
from __future__ import annotations

import json
import os

try:
    import engines.xh.shim  # noqa: F401  (Expression.__hash__ under NoTracing)
except ImportError:  # plain interpreter (replay)
    pass

import sqlglot.generator as _gm
import sqlglot.parser as _pm
from sqlglot import exp
from sqlglot.dialects.dialect import Dialect
from sqlglot.errors import ErrorLevel, ParseError, UnsupportedError
from sqlglot.parser import Parser

P = json.loads(os.environ.get("XH_PARAMS", "{}"))
EXCLUDE_EXACT = list(P.get("exclude_exact", []))
_D = Dialect.get_or_raise(None)
_SQL = "SELECT a + b"
_TOKS = _D.tokenize(_SQL)
MSGS = ["E0", "E1", "E2", "E3", "E4"]
LEVELS = [ErrorLevel.IGNORE, ErrorLevel.WARN, ErrorLevel.RAISE, ErrorLevel.IMMEDIATE]


class _Stub:
    """records = what the contract counts: logger.error for the parser (errors), logger.warning for the generator
    (unsupported messages).  The parser's 'falling back to Command' notice is a logger.warning issued at every level and is
    not an error of the C14 contract; it is kept apart in `notices`."""

    def __init__(self, count_warnings: bool = False):
        self.records = []
        self.notices = []
        self.count_warnings = count_warnings

    def error(self, msg, *a):
        self.records.append(str(msg))

    def warning(self, msg, *a):
        (self.records if self.count_warnings else self.notices).append(str(msg))

    def debug(self, *a):
        pass

    info = debug


def _parser(L, m=3):
    p = Parser(error_level=L, max_errors=m, dialect=_D)
    p.sql = _SQL
    p._tokens = _TOKS
    p._tokens_size = len(_TOKS)
    p._index = -1
    p._advance()
    return p


def _ok(args: dict) -> bool:
    return args not in EXCLUDE_EXACT


# ------------------------------------------------------------------ 1. raise_error* ; check_errors
def in_bounds_funnel(level: int, n: int, m: int) -> bool:
    return 0 <= level < 4 and 0 <= n <= 4 and 0 <= m <= 6 and _ok({"level": level, "n": n, "m": m})


def check_funnel(level: int, n: int, m: int) -> bool:
    L = LEVELS[level]
    p = _parser(L, m)
    h = _Stub()
    old = _pm.logger
    _pm.logger = h
    try:
        raised_at = -1
        first_exc = None
        for i in range(n):
            try:
                p.raise_error(MSGS[i])
            except ParseError as e:
                raised_at = i
                first_exc = e
                break
        final = None
        if raised_at < 0:
            try:
                p.check_errors()
            except ParseError as e:
                final = e
    finally:
        _pm.logger = old
    if L == ErrorLevel.IMMEDIATE:
        if n == 0:
            return raised_at == -1 and final is None and not h.records
        return raised_at == 0 and len(first_exc.errors) == 1 and first_exc.errors[0]["description"] == MSGS[0]
    if raised_at != -1:
        return False
    if L == ErrorLevel.IGNORE:
        return final is None and len(h.records) == 0
    if L == ErrorLevel.WARN:
        if final is not None or len(h.records) != n:
            return False
        for i in range(n):
            if not h.records[i].startswith(MSGS[i] + ". Line "):
                return False
        return True
    # RAISE
    if n == 0:
        return final is None and not h.records
    if final is None or len(final.errors) != n or h.records:
        return False
    for i in range(n):
        if final.errors[i]["description"] != MSGS[i]:
            return False
    parts = str(final).split("\n\n")
    shown = min(n, m)
    if len(parts) != shown + (1 if n > m else 0):
        return False
    for i in range(shown):
        if not parts[i].startswith(MSGS[i] + ". Line "):
            return False
    if n > m and parts[-1] != "... and " + str(n - m) + " more":
        return False
    return True


def prop_funnel(level: int, n: int, m: int) -> bool:
    """
    pre: in_bounds_funnel(level, n, m)
    post: _ == True
    """
    return check_funnel(level, n, m)


def twin_funnel(level: int, n: int, m: int) -> bool:
    """
    pre: in_bounds_funnel(level, n, m)
    post: False
    """
    return check_funnel(level, n, m)


# ------------------------------------------------------------------ 2. _try_parse
def in_bounds_try(level: int, start: int, retreat: bool, beh: int) -> bool:
    return 0 <= level < 4 and 0 <= start < 3 and 0 <= beh < 5 and _ok({"level": level, "start": start, "retreat": retreat, "beh": beh})


def check_try(level: int, start: int, retreat: bool, beh: int) -> bool:
    L = LEVELS[level]
    p = _parser(L)
    p._advance(start)
    idx0 = p._index

    def pm():
        if beh == 0:
            p._advance()
            return exp.column("x")
        if beh == 1:
            p._advance()
            return None
        if beh == 2:
            p.raise_error("boom")
            return exp.column("y")
        if beh == 3:
            p._advance()
            p.raise_error("boom2")
            return exp.column("y")
        # nested speculation that fails inside, then succeeds outside
        inner = p._try_parse(lambda: p.raise_error("inner") or exp.column("z"))
        if inner is not None or p.error_level != ErrorLevel.IMMEDIATE:
            return None
        p._advance()
        return exp.column("w")

    res = p._try_parse(pm, retreat=retreat)
    if p.error_level != L or p.errors:
        return False
    if beh in (0, 4):
        return res is not None and p._index == (idx0 if retreat else idx0 + 1)
    return res is None and p._index == idx0


def prop_try(level: int, start: int, retreat: bool, beh: int) -> bool:
    """
    pre: in_bounds_try(level, start, retreat, beh)
    post: _ == True
    """
    return check_try(level, start, retreat, beh)


def twin_try(level: int, start: int, retreat: bool, beh: int) -> bool:
    """
    pre: in_bounds_try(level, start, retreat, beh)
    post: False
    """
    return check_try(level, start, retreat, beh)


# ------------------------------------------------------------------ 3. validate_expression
def _node(missing: int):
    if missing == 0:
        return exp.EQ(this=exp.column("a"), expression=exp.column("b"))
    if missing == 1:
        return exp.EQ(this=exp.column("a"))
    return exp.EQ()


def in_bounds_validate(level: int, missing: int, m: int) -> bool:
    return 0 <= level < 4 and 0 <= missing <= 2 and 0 <= m <= 3 and _ok({"level": level, "missing": missing, "m": m})


def check_validate(level: int, missing: int, m: int) -> bool:
    L = LEVELS[level]
    p = _parser(L, m)
    node = _node(missing)
    h = _Stub()
    old = _pm.logger
    _pm.logger = h
    try:
        raised = None
        out = None
        try:
            out = p.validate_expression(node)
        except ParseError as e:
            raised = e
        final = None
        if raised is None:
            try:
                p.check_errors()
            except ParseError as e:
                final = e
    finally:
        _pm.logger = old
    if raised is None and out is not node:
        return False  # validation never changes what is produced
    if L == ErrorLevel.IGNORE:
        return raised is None and final is None and not p.errors and not h.records
    if L == ErrorLevel.IMMEDIATE:
        return (raised is not None) == (missing > 0)
    if raised is not None or len(p.errors) != missing:
        return False
    if L == ErrorLevel.WARN:
        return final is None and len(h.records) == missing
    return (final is not None) == (missing > 0) and (final is None or len(final.errors) == missing)


def prop_validate(level: int, missing: int, m: int) -> bool:
    """
    pre: in_bounds_validate(level, missing, m)
    post: _ == True
    """
    return check_validate(level, missing, m)


def twin_validate(level: int, missing: int, m: int) -> bool:
    """
    pre: in_bounds_validate(level, missing, m)
    post: False
    """
    return check_validate(level, missing, m)


# ------------------------------------------------------------------ 4. generator: unsupported_level / max_unsupported
_TREES = [
    _D.parse("SELECT a")[0],
    _D.parse("SELECT a, TRY(b)")[0],
    _D.parse("SELECT a, TRY(b), TRY(c)")[0],
    _D.parse("SELECT a, TRY(b), TRY(c), TRY(d)")[0],
]


def _pick_target():
    """First dialect (in registry order) whose generator reports TRY(...) as unsupported; read from the code at run time."""
    from sqlglot.dialects.dialect import Dialects

    for d in Dialects:
        try:
            _TREES[1].sql(dialect=d.value, unsupported_level=ErrorLevel.IMMEDIATE)
        except UnsupportedError as e:
            return Dialect.get_or_raise(d.value), str(e)
        except Exception:
            continue
    raise RuntimeError("no dialect reports TRY as unsupported")


_GD, _UMSG = _pick_target()
_TEXTS = [_GD.generator(unsupported_level=ErrorLevel.IGNORE).generate(t) for t in _TREES]


def in_bounds_gen(level: int, k: int, m: int) -> bool:
    return 0 <= level < 4 and 0 <= k <= 3 and 0 <= m <= 4 and _ok({"level": level, "k": k, "m": m})


def check_gen(level: int, k: int, m: int) -> bool:
    L = LEVELS[level]
    g = _GD.generator(unsupported_level=L, max_unsupported=m)
    h = _Stub(count_warnings=True)
    old = _gm.logger
    _gm.logger = h
    try:
        out = None
        raised = None
        try:
            out = g.generate(_TREES[k])
        except UnsupportedError as e:
            raised = e
    finally:
        _gm.logger = old
    if L in (ErrorLevel.IGNORE, ErrorLevel.WARN):
        if raised is not None or out != _TEXTS[k]:
            return False
        if L == ErrorLevel.IGNORE:
            return not h.records
        return len(h.records) == k and all(r == _UMSG for r in h.records)
    if k == 0:
        return raised is None and out == _TEXTS[0] and not h.records
    if raised is None or h.records:
        return False
    if L == ErrorLevel.IMMEDIATE:
        return str(raised) == _UMSG
    parts = str(raised).split("\n\n")
    shown = min(k, m)
    if len(parts) != shown + (1 if k > m else 0):
        return False
    for i in range(shown):
        if parts[i] != _UMSG:
            return False
    if k > m and parts[-1] != "... and " + str(k - m) + " more":
        return False
    return True


def prop_gen(level: int, k: int, m: int) -> bool:
    """
    pre: in_bounds_gen(level, k, m)
    post: _ == True
    """
    return check_gen(level, k, m)


def twin_gen(level: int, k: int, m: int) -> bool:
    """
    pre: in_bounds_gen(level, k, m)
    post: False
    """
    return check_gen(level, k, m)



# ------------------------------------------------------------------ 4b. generator: the four levels related on real (tree, target dialect) pairs
# pairs = [[read dialect, write dialect, sql], ...] harvested by props/C14.py: every target dialect with a statement for which
# its generator reports at least one unsupported construct (sub-generators included: athena routes DDL to a Hive generator).
GPAIRS = P.get("gpairs") or [["", "athena", "ALTER TABLE t ALTER COLUMN c SET DEFAULT 3"], ["", "sqlite", "SELECT a, TRY(b)"]]


def _gen_run(tree, write, L, m):
    g = Dialect.get_or_raise(write or None).generator(unsupported_level=L, max_unsupported=m)
    h = _Stub(count_warnings=True)
    old = _gm.logger
    _gm.logger = h
    out = raised = None
    try:
        try:
            out = g.generate(tree)
        except UnsupportedError as e:
            raised = str(e)
    finally:
        _gm.logger = old
    return out, raised, h.records


def _gref():
    """Reference per pair, computed concretely at import: the text (IGNORE run) and the messages (WARN run, IMMEDIATE run)."""
    ref = []
    for read, write, sql in GPAIRS:
        tree = Dialect.get_or_raise(read or None).parse(sql)[0]
        text, _, _ = _gen_run(tree, write, ErrorLevel.IGNORE, 3)
        _, _, msgs = _gen_run(tree, write, ErrorLevel.WARN, 3)
        ref.append((tree, write, text, list(msgs)))
    return ref


_GREF = _gref()


def in_bounds_genx(gi: int, level: int, m: int) -> bool:
    return 0 <= gi < len(_GREF) and 0 <= level < 4 and 0 <= m <= 3 and _ok({"gi": gi, "level": level, "m": m})


def check_genx(gi: int, level: int, m: int) -> bool:
    tree, write, text, msgs = _GREF[gi]
    L = LEVELS[level]
    out, raised, records = _gen_run(tree, write, L, m)
    k = len(msgs)
    if L == ErrorLevel.IGNORE:
        return raised is None and out == text and not records
    if L == ErrorLevel.WARN:
        return raised is None and out == text and records == msgs
    if records:
        return False
    if k == 0:
        return raised is None and out == text
    if raised is None:
        return False
    if L == ErrorLevel.IMMEDIATE:
        return raised == msgs[0]
    parts = msgs[:m] + (["... and " + str(k - m) + " more"] if k > m else [])
    return raised == "\n\n".join(parts)


def prop_genx(gi: int, level: int, m: int) -> bool:
    """
    pre: in_bounds_genx(gi, level, m)
    post: _ == True
    """
    return check_genx(gi, level, m)


def twin_genx(gi: int, level: int, m: int) -> bool:
    """
    pre: in_bounds_genx(gi, level, m)
    post: False
    """
    return check_genx(gi, level, m)


# ------------------------------------------------------------------ 5. the four-run relation on a corpus of real inputs
CORPUS = P.get("corpus") or [
    "SELECT a FROM t",
    "SELECT a +",
    "SELECT a FROM",
    "SELECT (a, b FROM t",
    "SELECT CASE WHEN a THEN b FROM t",
    "SELECT a FROM t WHERE",
    "SELECT a; SELECT b +; SELECT c",
    "SELECT a FROM t JOIN",
    "SELECT CAST(a AS) FROM t",
    "SELECT * FROM (SELECT a FROM t",
    "INSERT INTO t VALUES (1,",
    "SELECT a FROM t ORDER BY",
    "SELECT a b c d FROM t",
    "SELECT IF(a, b FROM t; SELECT 1",
    "WITH x AS (SELECT 1 SELECT * FROM x",
    "SELECT a IN (1, 2 FROM t",
    # a speculative branch fails first, a genuine error follows (in the same or in the next statement)
    "SELECT a limit FROM t; SELECT 1 +",
    "SELECT a limit, CAST(b AS) FROM t WHERE",
    "SELECT a offset FROM t; SELECT CAST(x AS) FROM",
    "SELECT 1 +; SELECT a limit FROM t",
    # text handed to a nested parse (the body of a hint comment goes through maybe_parse with its own error level)
    "SELECT /*+ */ a FROM t",
    "SELECT /*+ BROADCAST(t) */ a FROM t JOIN",
    "SELECT /*+ ( */ a FROM",
]
_CTOKS = [_D.tokenize(q) for q in CORPUS]


def _run_parse(idx: int, L, m: int):
    p = Parser(error_level=L, max_errors=m, dialect=_D)
    h = _Stub()
    old = _pm.logger
    _pm.logger = h
    trees = None
    exc = None
    try:
        try:
            trees = p.parse(_CTOKS[idx], CORPUS[idx])
        except ParseError as e:
            exc = e
    finally:
        _pm.logger = old
    return trees, exc, h.records


def in_bounds_parse(idx: int, m: int) -> bool:
    return 0 <= idx < len(CORPUS) and 1 <= m <= 4 and _ok({"idx": idx, "m": m})


def check_parse(idx: int, m: int) -> bool:
    t_ign, e_ign, l_ign = _run_parse(idx, ErrorLevel.IGNORE, m)
    t_warn, e_warn, l_warn = _run_parse(idx, ErrorLevel.WARN, m)
    t_raise, e_raise, l_raise = _run_parse(idx, ErrorLevel.RAISE, m)
    t_imm, e_imm, l_imm = _run_parse(idx, ErrorLevel.IMMEDIATE, m)
    if e_ign is not None or e_warn is not None or l_ign or l_raise or l_imm:
        return False
    if len(t_ign) != len(t_warn):
        return False
    for a, b in zip(t_ign, t_warn):
        if (a is None) != (b is None):
            return False
        if a is not None and (a != b or a.sql() != b.sql()):
            return False
    nlog = len(l_warn)
    if (e_raise is not None) != (nlog > 0) or (e_imm is not None) != (nlog > 0):
        return False
    if nlog == 0:
        # with nothing to report every level produces the same trees
        return [x.sql() if x is not None else None for x in t_raise] == [x.sql() if x is not None else None for x in t_warn] \
            and [x.sql() if x is not None else None for x in t_imm] == [x.sql() if x is not None else None for x in t_warn]
    k = len(e_raise.errors)
    if not (1 <= k <= nlog):
        return False
    for i in range(k):
        if not l_warn[i].startswith(e_raise.errors[i]["description"] + ". Line "):
            return False
    parts = str(e_raise).split("\n\n")
    if len(parts) != min(k, m) + (1 if k > m else 0):
        return False
    if len(e_imm.errors) != 1 or e_imm.errors[0]["description"] != e_raise.errors[0]["description"]:
        return False
    return e_imm.errors[0]["line"] == e_raise.errors[0]["line"] and e_imm.errors[0]["col"] == e_raise.errors[0]["col"]


def prop_parse(idx: int, m: int) -> bool:
    """
    pre: in_bounds_parse(idx, m)
    post: _ == True
    """
    return check_parse(idx, m)


def twin_parse(idx: int, m: int) -> bool:
    """
    pre: in_bounds_parse(idx, m)
    post: False
    """
    return check_parse(idx, m)


_CHECKS = {"gi": check_genx, "idx": check_parse, "n": check_funnel, "beh": check_try, "missing": check_validate, "k": check_gen}
_BOUNDS = {"gi": in_bounds_genx, "idx": in_bounds_parse, "n": in_bounds_funnel, "beh": in_bounds_try, "missing": in_bounds_validate, "k": in_bounds_gen}


def check(**kw) -> bool:
    for key, fn in _CHECKS.items():
        if key in kw:
            return fn(**kw)
    raise ValueError(kw)


def in_bounds(**kw) -> bool:
    for key, fn in _BOUNDS.items():
        if key in kw:
            return fn(**kw)
    return False


def explain(**kw) -> str:
    return "error-level contract violated for " + repr(kw) + " (levels: 0 IGNORE, 1 WARN, 2 RAISE, 3 IMMEDIATE)"
