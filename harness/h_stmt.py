"""E1 harness for the PARSER-level clauses of C01 and C05: a statement with a symbolic hole.

sql = pre ++ h ++ post where pre/post come from a real statement cut at a token boundary and h ranges over the alphabet
SIGMA (operators, punctuation, quotes, a letter, a digit, white-space) with len(h) <= maxlen.  The whole pipeline
tokenize -> parse -> generate (-> parse -> generate) of the given dialect runs under CrossHair.

mode "roundtrip" (C01): if sql parses, the generated s1 parses again in the same dialect and generates s1 byte for byte.
mode "errors"    (C05): parse / generate return or raise an error of the library's own family -- never IndexError,
                        AttributeError, KeyError, TypeError, ValueError, RecursionError ...

Stubs: engines/xh/alpha.py (str predicates exact on SIGMA + the statement's own characters), Expression.__hash__ and
camel_to_snake_case under NoTracing (engines/xh/shim.py).
"""
from __future__ import annotations

import json
import os

try:
    import engines.xh.shim  # noqa: F401
except ImportError:
    pass

from sqlglot.dialects.dialect import Dialect
from sqlglot.errors import OptimizeError, ParseError, TokenError, UnsupportedError

P = json.loads(os.environ.get("XH_PARAMS", "{}"))
DIALECT = P.get("dialect", "")
PRE = P.get("pre", "SELECT a ")
POST = P.get("post", " b FROM t")
MINLEN = int(P.get("minlen", 0))
MAXLEN = int(P.get("maxlen", 1))
MODE = P.get("mode", "roundtrip")
BASE_SIGMA = P.get("sigma", "a1 ,()'\"+-*/=<>.;:|&!%[]\n")
EXCLUDE = list(P.get("exclude", []))
EXCLUDE_EXACT = list(P.get("exclude_exact", []))
# known-finding region C01-number-dot-keyword: the hole is a "." right after a number (`1 . FROM` parses as a member access
# and is generated as `1.FROM`, which lexes as the number `1.` followed by a keyword)
EXCLUDE_NUMBER_DOT = bool(P.get("exclude_number_dot", False))

D = Dialect.get_or_raise(DIALECT or None)
SIGMA = "".join(sorted(set(BASE_SIGMA)))

from engines.xh import alpha  # noqa: E402

alpha.install(SIGMA + PRE + POST)
OWN = (ParseError, TokenError, UnsupportedError, OptimizeError)


def in_bounds(h: str) -> bool:
    if not (MINLEN <= len(h) <= MAXLEN):
        return False
    for c in h:
        if c not in SIGMA:
            return False
    for sub in EXCLUDE:
        if sub in h:
            return False
    for ex in EXCLUDE_EXACT:
        if h == ex:
            return False
    if EXCLUDE_NUMBER_DOT and h == "." and PRE.rstrip()[-1:].isdigit():
        return False
    return True


def str_eq(a, b) -> bool:
    """Character-wise equality: CrossHair 0.0.110 answers False for `==` between two symbolic strings whose code points
    are held in differently shaped containers (measured: equal statements compared unequal)."""
    if len(a) != len(b):
        return False
    for x, y in zip(a, b):
        if x != y:
            return False
    return True


def _gen(trees):
    return [D.generate(t) if t is not None else "" for t in trees]


def verdict(h: str) -> str:
    sql = PRE + h + POST
    if MODE == "errors":
        try:
            trees = D.parse(sql)
            _gen(trees)
        except OWN:
            return "ok"
        except RecursionError:
            return "leak:RecursionError"
        except Exception as e:
            return "leak:" + type(e).__name__
        return "ok"
    try:
        trees = D.parse(sql)
        s1 = _gen(trees)
    except OWN:
        return "ok"
    except Exception as e:
        # internal exceptions are C05's business, not C01's (mode "both" is used to collect findings in one sweep)
        return ("leak:" + type(e).__name__) if MODE == "both" else "ok"
    try:
        t2 = [D.parse(s)[0] if s else None for s in s1]
        s2 = _gen(t2)
    except OWN as e:
        return "s1-does-not-parse:" + type(e).__name__
    except Exception as e:
        return "s1-raises:" + type(e).__name__
    if len(s1) != len(s2):
        return "not-a-fixpoint"
    for a, b in zip(s1, s2):
        if not str_eq(a, b):
            return "not-a-fixpoint"
    return "ok"


def check(h: str) -> bool:
    return verdict(h) == "ok"


def explain(h: str) -> str:
    sql = PRE + h + POST
    out = f"dialect={DIALECT or 'base'} mode={MODE} sql={sql!r} verdict={verdict(h)}"
    try:
        s1 = _gen(D.parse(sql))
        out += f" s1={s1!r}"
        s2 = _gen([D.parse(s)[0] if s else None for s in s1])
        out += f" s2={s2!r}"
    except Exception as e:
        out += f" raises {type(e).__name__}: {str(e)[:200]!r}"
    return out


def replay(h: str):
    """The statement-level criterion through the public API only."""
    import sqlglot

    sql = PRE + h + POST
    d = DIALECT or None
    if MODE in ("errors", "both"):
        try:
            sqlglot.transpile(sql, read=d, write=d)
        except OWN:
            return True, "library error"
        except Exception as e:
            import traceback

            tb = traceback.extract_tb(e.__traceback__)[-1]
            return False, f"dialect={DIALECT or 'base'}: transpile({sql!r}) leaks {type(e).__name__}: {str(e)[:120]!r} at {os.path.basename(tb.filename)}:{tb.lineno} ({tb.name})"
        if MODE == "errors":
            return True, "returns"
    try:
        s1 = sqlglot.transpile(sql, read=d, write=d)
    except Exception:
        return True, "does not parse"
    try:
        s2 = [sqlglot.transpile(s, read=d, write=d)[0] if s else "" for s in s1]
    except Exception as e:
        return False, f"dialect={DIALECT or 'base'}: {sql!r} -> {s1!r} which does not parse again: {type(e).__name__}: {str(e)[:120]!r}"
    if s1 != s2:
        return False, f"dialect={DIALECT or 'base'}: {sql!r} -> {s1!r} -> {s2!r} (not a fixpoint)"
    return True, "fixpoint"


def prop(h: str) -> bool:
    """
    pre: in_bounds(h)
    post: _ == True
    """
    return check(h)


def twin(h: str) -> bool:
    """
    pre: in_bounds(h)
    post: False
    """
    return check(h)
