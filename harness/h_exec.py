"""E1 harness for C11: the Python executor vs. reference SQL semantics, on symbolic table cells.

Parameters: sql (base dialect, over x(a,b) and y(b,c)), maxx / maxy (rows per table: every size 0..max is covered through
symbolic presence flags), small (list of "table.col" restricted to -1..1: join / group keys), exclude_exact.

PLAN = Plan(optimize(sql, schema, leave_tables_isolated=True)) is built at import, outside tracing, exactly as execute()
does.  Inside the traced function the tables are built from the symbolic cells and PythonExecutor(tables).execute(PLAN) runs
on them; the result is compared (bag; sequence under ORDER BY) with the reference evaluator (engines/sqlsmt/sem.py, PyAlg
mode) on the same cells.  ExecuteError is an allowed outcome.
"""
from __future__ import annotations

import json
import os
from typing import Optional

try:
    import engines.xh.shim  # noqa: F401
except ImportError:
    pass

import sqlglot
from sqlglot.errors import ExecuteError
from sqlglot.executor.python import PythonExecutor
from sqlglot.executor.table import ensure_tables
from sqlglot.optimizer import optimize
from sqlglot.planner import Plan
from sqlglot.schema import ensure_schema

from engines.sqlsmt.alg import PyAlg
from engines.sqlsmt.sem import Env, Sem, V

P = json.loads(os.environ.get("XH_PARAMS", "{}"))
SQL = P.get("sql", "SELECT a, b FROM x WHERE a > b")
MAXX = int(P.get("maxx", 2))
MAXY = int(P.get("maxy", 1))
SMALL = set(P.get("small", []))
EXCLUDE_EXACT = list(P.get("exclude_exact", []))

SCHEMA_D = {"x": {"a": "INT", "b": "INT"}, "y": {"b": "INT", "c": "INT"}}
SEM_SCHEMA = {"x": [("a", "int"), ("b", "int")], "y": [("b", "int"), ("c", "int")]}
_SCHEMA = ensure_schema(SCHEMA_D)
PLAN = Plan(optimize(SQL, _SCHEMA, leave_tables_isolated=True))
TREE = sqlglot.parse_one(SQL)
ORDERED = TREE.args.get("order") is not None
_A = PyAlg()


def _tables(px0, xa0, xb0, px1, xa1, xb1, py0, yb0, yc0, py1, yb1, yc1):
    x = []
    if px0:
        x.append({"a": xa0, "b": xb0})
    if px1:
        x.append({"a": xa1, "b": xb1})
    y = []
    if py0:
        y.append({"b": yb0, "c": yc0})
    if py1:
        y.append({"b": yb1, "c": yc1})
    return x, y


def _small_ok(v):
    return v is None or -1 <= v <= 1


def in_bounds(px0: bool, xa0: Optional[int], xb0: Optional[int], px1: bool, xa1: Optional[int], xb1: Optional[int],
              py0: bool, yb0: Optional[int], yc0: Optional[int], py1: bool, yb1: Optional[int], yc1: Optional[int]) -> bool:
    if MAXX < 2 and px1:
        return False
    if MAXX < 1 and px0:
        return False
    if MAXY < 2 and py1:
        return False
    if MAXY < 1 and py0:
        return False
    # canonical form: absent rows hold NULLs and row 1 is only present if row 0 is
    if (px1 and not px0) or (py1 and not py0):
        return False
    if not px0 and not (xa0 is None and xb0 is None):
        return False
    if not px1 and not (xa1 is None and xb1 is None):
        return False
    if not py0 and not (yb0 is None and yc0 is None):
        return False
    if not py1 and not (yb1 is None and yc1 is None):
        return False
    if "x.a" in SMALL and not (_small_ok(xa0) and _small_ok(xa1)):
        return False
    if "x.b" in SMALL and not (_small_ok(xb0) and _small_ok(xb1)):
        return False
    if "y.b" in SMALL and not (_small_ok(yb0) and _small_ok(yb1)):
        return False
    if "y.c" in SMALL and not (_small_ok(yc0) and _small_ok(yc1)):
        return False
    args = {"px0": px0, "xa0": xa0, "xb0": xb0, "px1": px1, "xa1": xa1, "xb1": xb1, "py0": py0, "yb0": yb0, "yc0": yc0,
            "py1": py1, "yb1": yb1, "yc1": yc1}
    return args not in EXCLUDE_EXACT


def reference(x, y):
    """Reference result by the PyAlg evaluator: (rows as tuples (None = NULL), in ORDER BY order when ordered)."""
    tables = {}
    for name, rows in (("x", x), ("y", y)):
        trs = []
        for r in rows:
            cells = {}
            for c, kind in SEM_SCHEMA[name]:
                val = r[c]
                cells[c] = V("int", val is None, 0 if val is None else val)
            trs.append((True, cells))
        tables[name] = trs
    sem = Sem(_A, tables, SEM_SCHEMA, null_ordering="small")
    rel = sem.evq(TREE, Env(sem))
    rows = []
    for i, (p, vals) in enumerate(rel.rows):
        if p:
            rows.append((tuple(None if v.n else v.v for v in vals), rel.order[i] if rel.order is not None else None))
    for a in sem.assumptions:
        if not a:
            return None  # outside the claim (ties under LIMIT, scalar sub-query with several rows)
    if rel.order is not None:
        rows = _sort(rows)
    return [r for r, _k in rows]


def _before(ka, kb):
    for (va, desc, nf), (vb, _d, _n) in zip(ka, kb):
        if va.n and vb.n:
            continue
        if va.n:
            return nf
        if vb.n:
            return not nf
        if va.v != vb.v:
            return (va.v > vb.v) if desc else (va.v < vb.v)
    return False


def _sort(rows):
    out = []
    for r in rows:
        i = 0
        while i < len(out) and not _before(r[1], out[i][1]):
            i += 1
        out.insert(i, r)
    return out


def _same(a, b):
    if a is None or b is None:
        return a is None and b is None
    return a == b


def _same_row(r, s):
    ok = True
    for a, b in zip(r, s):
        ok = ok & _same(a, b)
    return ok


def _count(rows, r):
    n = 0
    for q in rows:
        n = n + (1 if _same_row(q, r) else 0)
    return n


def compare(got, want) -> bool:
    if len(got) != len(want):
        return False
    if got and len(got[0]) != len(want[0]):
        return False
    if ORDERED:
        ok = True
        for r, s in zip(got, want):
            ok = ok & _same_row(r, s)
        return bool(ok)
    ok = True
    for r in want:
        ok = ok & (_count(got, r) == _count(want, r))
    return bool(ok)


def check(px0, xa0, xb0, px1, xa1, xb1, py0, yb0, yc0, py1, yb1, yc1) -> bool:
    x, y = _tables(px0, xa0, xb0, px1, xa1, xb1, py0, yb0, yc0, py1, yb1, yc1)
    want = reference(x, y)
    if want is None:
        return True
    try:
        res = PythonExecutor(tables=ensure_tables({"x": x, "y": y})).execute(PLAN)
    except ExecuteError:
        return True
    got = [tuple(r) for r in res.rows]
    return compare(got, want)


def prop(px0: bool, xa0: Optional[int], xb0: Optional[int], px1: bool, xa1: Optional[int], xb1: Optional[int],
         py0: bool, yb0: Optional[int], yc0: Optional[int], py1: bool, yb1: Optional[int], yc1: Optional[int]) -> bool:
    """
    pre: in_bounds(px0, xa0, xb0, px1, xa1, xb1, py0, yb0, yc0, py1, yb1, yc1)
    post: _ == True
    """
    return check(px0, xa0, xb0, px1, xa1, xb1, py0, yb0, yc0, py1, yb1, yc1)


def twin(px0: bool, xa0: Optional[int], xb0: Optional[int], px1: bool, xa1: Optional[int], xb1: Optional[int],
         py0: bool, yb0: Optional[int], yc0: Optional[int], py1: bool, yb1: Optional[int], yc1: Optional[int]) -> bool:
    """
    pre: in_bounds(px0, xa0, xb0, px1, xa1, xb1, py0, yb0, yc0, py1, yb1, yc1)
    post: False
    """
    return check(px0, xa0, xb0, px1, xa1, xb1, py0, yb0, yc0, py1, yb1, yc1)


# ------------------------------------------------------------------------------ replay: the real entry point vs engines
def replay(**kw):
    from sqlglot.executor import execute
    from engines.sqlsmt import bridge

    x, y = _tables(**kw)
    data = {"x": [(r["a"], r["b"]) for r in x], "y": [(r["b"], r["c"]) for r in y]}
    schema = {"x": SEM_SCHEMA["x"], "y": SEM_SCHEMA["y"]}
    tables = {"x": x, "y": y}
    try:
        res = execute(SQL, schema=SCHEMA_D, tables=tables)
        got = [tuple(r) for r in res.rows]
        cols = list(res.columns)
    except ExecuteError as e:
        return True, "ExecuteError (allowed): " + str(e)[:100]
    except Exception as e:
        got, cols = "raised " + type(e).__name__ + ": " + str(e)[:160], None
    duck = bridge.run_duckdb(sqlglot.transpile(SQL, write="duckdb")[0], data, schema)
    lite = bridge.run_sqlite(sqlglot.transpile(SQL, write="sqlite")[0], data, schema)
    where = f"sql={SQL!r} tables={tables!r} executor={got!r} columns={cols} duckdb={duck.get('rows', duck.get('error'))!r} sqlite={lite.get('rows', lite.get('error'))!r}"
    engines = [e for e in (duck, lite) if e["ok"]]
    if not engines:
        return True, "no engine could run the query: " + where
    if isinstance(got, str):
        return False, "execute() raised an internal exception: " + where
    agree = [bridge.same_rows(got, e["rows"], ORDERED) for e in engines]
    if len(engines) == 2 and not bridge.same_rows(duck["rows"], lite["rows"], ORDERED):
        return True, "the engines disagree with each other (outside the claim): " + where
    if all(agree):
        return True, "executor agrees with the engines (oracle stricter than the engines?): " + where
    return False, "executor differs from the reference engines: " + where
