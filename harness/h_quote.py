"""E1 harness for C04: quoting of strings / identifiers / raw / national strings and comments.

Parameters (env XH_PARAMS, JSON):
  dialect   name of the group representative ("" = base)
  kind      string | ident | raw | national | comment
  minlen, maxlen   the bound on len(v) stated in pre:
  pretty    "both" (symbolic bool), true or false
  exclude   list of substrings: inputs containing one of them belong to a listed known-finding
            region and are excluded from the search (DESIGN 4.4)
  exclude_exact  list of exact inputs excluded after a spurious (non-reproducing) counterexample

Everything concrete (dialect, generators, tokenizer, base statement) is built here at import time,
outside tracing.  `check(v, pretty)` is the property as a boolean and is shared with the replay,
which calls it on concrete values in a plain interpreter.
"""
from __future__ import annotations

import json
import os

try:
    import engines.xh.shim  # noqa: F401
except ImportError:
    pass

from sqlglot import exp
from sqlglot.dialects.dialect import Dialect
from sqlglot.errors import TokenError
from sqlglot.generator import Generator
from sqlglot.tokens import TokenType

P = json.loads(os.environ.get("XH_PARAMS", "{}"))
DIALECT = P.get("dialect", "")
KIND = P.get("kind", "string")
MINLEN = int(P.get("minlen", 0))
MAXLEN = int(P.get("maxlen", 1))
PRETTY = P.get("pretty", "both")
EXCLUDE = list(P.get("exclude", []))
EXCLUDE_EXACT = list(P.get("exclude_exact", []))

D = Dialect.get_or_raise(DIALECT or None)


def _comment_sigma() -> str:
    """Alphabet for comment texts: every character of the dialect's comment delimiters, quote and identifier delimiters
    and escapes, plus representatives (letter, digit, space, tab, LF, CR, NUL, non-ASCII letter, NBSP)."""
    core = D.tokenizer()._core
    if P.get("alphabet") == "markers":
        # small alphabet for longer texts: the comment delimiters' own characters, a letter, a space and a line break
        chars = set("a \n")
        for k, v in core.comments.items():
            chars.update(k)
            chars.update(v or "")
        return "".join(sorted(chars))
    chars = set("a1 \t\n\r\x00\u00e9\u00a0-")
    for tab in (core.comments, core.quotes, core.identifiers):
        for k, v in tab.items():
            chars.update(k)
            if isinstance(v, str):
                chars.update(v)
    for tab in (core.string_escapes, core.identifier_escapes):
        for k in tab:
            chars.update(k)
    chars.update(core.hint_start or "")
    return "".join(sorted(chars))


SIGMA = None
if KIND == "comment" and P.get("alphabet", True):
    # str.strip()/isspace() on a symbolic character cost seconds per query in CrossHair's Unicode model (measured
    # 9 s per path): comment texts range over SIGMA and the predicates are replaced by tables exact on SIGMA
    from engines.xh import alpha

    SIGMA = _comment_sigma()
    alpha.install(SIGMA)
GEN = {False: D.generator(pretty=False), True: D.generator(pretty=True)}
GEN_NC = {False: D.generator(pretty=False, comments=False), True: D.generator(pretty=True, comments=False)}
TOK = D.tokenizer()
SENTINEL = Generator.SENTINEL_LINE_BREAK

STRINGISH = (TokenType.STRING, TokenType.RAW_STRING, TokenType.NATIONAL_STRING)

# statement used for the comment obligations; parsed concretely here
_STMT_SQL = P.get("stmt", "SELECT a")
if KIND == "comment":
    # the tree is dialect-neutral: parsed by the base dialect, generated and re-tokenized by D
    _STMT = Dialect.get_or_raise(None).parse(_STMT_SQL)[0]
    _BASE_SQL = {p: GEN[p].generate(_STMT) for p in (False, True)}
    _BASE_TOKS = {p: [(t.token_type, t.text) for t in TOK.tokenize(_BASE_SQL[p])] for p in (False, True)}


def in_bounds(v: str, pretty: bool) -> bool:
    if not (MINLEN <= len(v) <= MAXLEN):
        return False
    if SIGMA is not None:
        for c in v:
            if c not in SIGMA:
                return False
    if PRETTY is not None and PRETTY != "both" and pretty != bool(PRETTY):
        return False
    for sub in EXCLUDE:
        if sub in v:
            return False
    for ex in EXCLUDE_EXACT:
        if v == ex:
            return False
    return True


def render(v: str, pretty: bool) -> str:
    g = GEN[bool(pretty)]
    if KIND == "string":
        return g.generate(exp.Literal.string(v))
    if KIND == "ident":
        return g.generate(exp.to_identifier(v, quoted=True))
    if KIND == "raw":
        return g.generate(exp.RawString(this=v))
    if KIND == "national":
        return g.generate(exp.National(this=v))
    raise ValueError(KIND)


def check(v: str, pretty: bool) -> bool:
    """The property for one value: True = holds."""
    pretty = bool(pretty)
    if KIND == "comment":
        return check_comment(v, pretty)
    sql = render(v, pretty)
    if SENTINEL in sql and SENTINEL not in v:
        return False
    try:
        toks = TOK.tokenize(sql)
    except TokenError:
        return False
    if KIND == "ident":
        return len(toks) == 1 and toks[0].token_type == TokenType.IDENTIFIER and toks[0].text == v
    if KIND == "national" and len(toks) == 2:
        # dialects without N'..' literals lex the prefix as a separate word
        return (
            toks[0].token_type == TokenType.VAR
            and toks[0].text == "N"
            and toks[1].token_type == TokenType.STRING
            and toks[1].text == v
        )
    return len(toks) == 1 and toks[0].token_type in STRINGISH and toks[0].text == v


def check_comment(v: str, pretty: bool) -> bool:
    if not v:
        return True
    t = _STMT.copy()
    t.expressions[0].add_comments([v])
    sql = GEN[pretty].generate(t)
    if SENTINEL in sql and SENTINEL not in v:
        return False
    try:
        toks = TOK.tokenize(sql)
    except TokenError:
        return False
    if [(x.token_type, x.text) for x in toks] != _BASE_TOKS[pretty]:
        return False
    return GEN_NC[pretty].generate(t) == _BASE_SQL[pretty]


def explain(v: str, pretty: bool) -> str:
    pretty = bool(pretty)
    if KIND == "comment":
        t = _STMT.copy()
        t.expressions[0].add_comments([v])
        sql = GEN[pretty].generate(t)
    else:
        sql = render(v, pretty)
    try:
        toks = [(t.token_type.name, t.text) for t in TOK.tokenize(sql)]
    except Exception as e:
        toks = "raises " + type(e).__name__ + ": " + str(e)[:120]
    return f"dialect={DIALECT or 'base'} kind={KIND} v={v!r} generated={sql!r} tokens={toks!r}"


def prop(v: str, pretty: bool) -> bool:
    """
    pre: in_bounds(v, pretty)
    post: _ == True
    """
    return check(v, pretty)


def twin(v: str, pretty: bool) -> bool:
    """
    pre: in_bounds(v, pretty)
    post: False
    """
    return check(v, pretty)
