import itertools, sys
import sqlglot
from sqlglot import exp
from sqlglot.dialects.dialect import Dialect, Dialects
from sqlglot.tokens import TokenType
from sqlglot.errors import SqlglotError
ALPHA = ["'", '"', "\\", "`", "$", "n", "\n", "/", "*", "-", "]", "[", "\0", "a", "\t", "\r", "%", "{", "#", "@", ":", "?", "é"]
res = {}
for d in sorted(x.value for x in Dialects):
    if not d: dn = None
    else: dn = d
    D = Dialect.get_or_raise(dn)
    bad_s = []; bad_i = []
    for n in range(0, 3):
        for tup in itertools.product(ALPHA, repeat=n):
            v = "".join(tup)
            try:
                sql = exp.Literal.string(v).sql(dialect=dn)
                toks = D.tokenize(sql)
                ok = len(toks) == 1 and toks[0].token_type == TokenType.STRING and toks[0].text == v
            except SqlglotError as e:
                ok = False; sql = sql if 'sql' in dir() else None
            if not ok: bad_s.append((v, sql))
            if v:
                try:
                    sql = exp.to_identifier(v, quoted=True).sql(dialect=dn)
                    toks = D.tokenize(sql)
                    ok = len(toks) == 1 and toks[0].token_type == TokenType.IDENTIFIER and toks[0].text == v
                except SqlglotError as e:
                    ok = False
                if not ok: bad_i.append((v, sql))
    print(f"{d or 'base':12} str_bad={len(bad_s):4} id_bad={len(bad_i):4}", [b for b in bad_s[:4]], [b for b in bad_i[:4]])
