import sqlglot
from sqlglot.dialects.dialect import Dialect
from sqlglot.errors import TokenError

_D = Dialect.get_or_raise(None)
_TOK = _D.tokenizer_class(dialect=_D)

def expect_pos(sql: str, k: int):
    line = 1; last = -1
    for j in range(k):
        c = sql[j]
        if c == "\n" or (c == "\r" and sql[j+1:j+2] != "\n"):
            line += 1; last = j
    return line, k - last

def geom(h: str) -> bool:
    """
    pre: len(h) <= 2
    post: _ == True
    """
    sql = "GROUP" + h + "BY x"
    try:
        toks = _TOK.tokenize(sql)
    except TokenError:
        return True
    prev_end = -1
    for t in toks:
        if not (0 <= t.start <= t.end < len(sql)): return False
        if t.start <= prev_end: return False
        prev_end = t.end
        if (t.line, t.col) != expect_pos(sql, t.end): return False
    return True
