import sqlglot
from sqlglot import exp
from sqlglot.dialects.dialect import Dialect

_D = Dialect.get_or_raise(None)
_TREE = sqlglot.parse_one("SELECT a, b + 1 AS c, CASE WHEN x > 1 THEN 'y' ELSE 'z' END FROM t JOIN u ON t.a = u.a WHERE a IN (1, 2, 3) AND b LIKE 'x%' GROUP BY a ORDER BY c LIMIT 10")
_BASE = [(t.token_type, t.text) for t in _D.tokenize(_TREE.sql())]

def opts(w: int, p: int, i: int, lc: bool) -> bool:
    """
    pre: 0 <= w and 0 <= p <= 4 and 0 <= i <= 4
    post: _ == True
    """
    s = _TREE.sql(pretty=True, max_text_width=w, pad=p, indent=i, leading_comma=lc)
    toks = [(t.token_type, t.text) for t in _D.tokenize(s)]
    return toks == _BASE and "__SQLGLOT__LB__" not in s
