import shim
import copy
from sqlglot import exp
from sqlglot.schema import MappingSchema
from sqlglot.errors import SchemaError

PATHS_S = ["db1.t", "db2.t", "db1.u", "t", "u", "T", '"T"', "db1.T"]
TABLES = [exp.to_table(p) for p in PATHS_S]
FULL = [exp.to_table(p) for p in ["db1.t", "db2.t", "db1.u"]]
COLS = [{"a": "int"}, {"b": "int"}, {}]
INITS = [{"db1": {"t": {"a": "int"}}}, {"db1": {"t": {"a": "int"}}, "db2": {"t": {"b": "int"}}}, {"db1": {"u": {"a": "int"}}}]

def observe(s, i):
    try:
        return ("ok", tuple(s.column_names(TABLES[i].copy())))
    except SchemaError:
        return ("err", "schema")
    except ValueError:
        return ("err", "value")

def step(init: int, look: int, addp: int, addc: int, look2: int) -> bool:
    """
    pre: 0 <= init < 3 and 0 <= look < 8 and 0 <= addp < 3 and 0 <= addc < 3 and 0 <= look2 < 8
    post: _ == True
    """
    s = MappingSchema(copy.deepcopy(INITS[init]), normalize=False)
    observe(s, look)
    try:
        s.add_table(FULL[addp].copy(), dict(COLS[addc]))
    except SchemaError:
        return True
    got = observe(s, look2)
    fresh = MappingSchema(copy.deepcopy(s.mapping), normalize=False)
    want = observe(fresh, look2)
    return got == want
