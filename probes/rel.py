import time, itertools, z3
T, F = z3.BoolVal(True), z3.BoolVal(False)
def table(name, cols, K):
    rows = []
    for i in range(K):
        p = z3.Bool(f"{name}_p{i}")
        rows.append((p, {c: (z3.Bool(f"{name}_{c}{i}_n"), z3.Int(f"{name}_{c}{i}")) for c in cols}))
    return rows
def eq3(a, b):  # 3VL equality is TRUE
    return z3.And(z3.Not(a[0]), z3.Not(b[0]), a[1] == b[1])
def const(v): return (F, z3.IntVal(v))
NULL = (T, z3.IntVal(0))
def same(a, b):  # null-safe
    return z3.Or(z3.And(a[0], b[0]), z3.And(z3.Not(a[0]), z3.Not(b[0]), a[1] == b[1]))
def rowsame(r, s): return z3.And(*[same(a, b) for a, b in zip(r, s)])
def count(rel, r): return z3.Sum([z3.If(z3.And(p, rowsame(row, r)), 1, 0) for p, row in rel])
def bag_neq(R, S):
    conds = []
    for p, r in R + S:
        conds.append(z3.And(p, count(R, r) != count(S, r)))
    return z3.Or(*conds)
def left_join(X, Y, on, ycols):
    out = []
    for px, rx in X:
        matches = []
        for py, ry in Y:
            m = z3.And(px, py, on(rx, ry)); matches.append(m)
            out.append((m, {**{("x", k): v for k, v in rx.items()}, **{("y", k): v for k, v in ry.items()}}))
        out.append((z3.And(px, z3.Not(z3.Or(*matches))), {**{("x", k): v for k, v in rx.items()}, **{("y", k): NULL for k in ycols}}))
    return out
def inner_join(X, Y, on):
    return [(z3.And(px, py, on(rx, ry)), {**{("x", k): v for k, v in rx.items()}, **{("y", k): v for k, v in ry.items()}}) for px, rx in X for py, ry in Y]
def where(R, pred): return [(z3.And(p, pred(r)), r) for p, r in R]
def proj(R, keys): return [(p, tuple(r[k] for k in keys)) for p, r in R]
for K in (2, 3, 4):
    X = table("x", ["a", "b"], K); Y = table("y", ["b", "c"], K)
    on = lambda rx, ry: eq3(rx["a"], ry["b"])
    # left join + where on y.c   vs   left join with filter pushed into y (NOT equivalent)
    q1 = proj(where(left_join(X, Y, on, ["b", "c"]), lambda r: eq3(r[("y", "c")], const(1))), [("x", "a"), ("y", "c")])
    Yf = [(z3.And(p, eq3(r["c"], const(1))), r) for p, r in Y]
    q2 = proj(left_join(X, Yf, on, ["b", "c"]), [("x", "a"), ("y", "c")])
    s = z3.Solver(); s.add(bag_neq(q1, q2)); t0 = time.time(); r = s.check(); print("K", K, "leftjoin-pushdown (expect sat)", r, round(time.time() - t0, 3))
    # inner join + where   vs   inner join with pushed filter (equivalent)
    q3 = proj(where(inner_join(X, Y, on), lambda r: eq3(r[("y", "c")], const(1))), [("x", "a"), ("y", "c")])
    q4 = proj(inner_join(X, Yf, on), [("x", "a"), ("y", "c")])
    s = z3.Solver(); s.set("timeout", 120000); s.add(bag_neq(q3, q4)); t0 = time.time(); r = s.check(); print("K", K, "innerjoin-pushdown (expect unsat)", r, round(time.time() - t0, 3))
    # where x.a IN (select y.b) vs left join group by y.b where not null  (unnest rewrite, equivalent)
    def in_sub(rx):
        return z3.Or(*[z3.And(py, eq3(rx["a"], ry["b"])) for py, ry in Y])
    q5 = proj(where([(p, {("x", k): v for k, v in r.items()}) for p, r in X], lambda r: in_sub({"a": r[("x", "a")]})), [("x", "a"), ("x", "b")])
    # group by y.b: leader rows
    G = []
    for i, (py, ry) in enumerate(Y):
        leader = z3.And(py, *[z3.Not(z3.And(Y[j][0], same(Y[j][1]["b"], ry["b"]))) for j in range(i)])
        G.append((leader, {"b": ry["b"]}))
    lj = left_join(X, G, lambda rx, ry: eq3(rx["a"], ry["b"]), ["b"])
    q6 = proj(where(lj, lambda r: z3.Not(r[("y", "b")][0])), [("x", "a"), ("x", "b")])
    s = z3.Solver(); s.set("timeout", 120000); s.add(bag_neq(q5, q6)); t0 = time.time(); r = s.check(); print("K", K, "unnest IN (expect unsat)", r, round(time.time() - t0, 3))
