import shim
import sqlglot
from sqlglot import exp
from sqlglot.dialects.dialect import Dialect
from sqlglot.errors import TokenError

_D = Dialect.get_or_raise("mysql")
_TREE = sqlglot.parse_one("SELECT a", read="mysql")
_BASE = [(t.token_type, t.text) for t in _D.tokenize(_TREE.sql(dialect="mysql"))]
_GEN = _D.generator()
_GEN_NC = _D.generator(comments=False)
_GEN_P = _D.generator(pretty=True)

def comment(v: str, pretty: bool) -> bool:
    """
    pre: len(v) == 1
    post: _ == True
    """
    t = _TREE.copy()
    t.expressions[0].add_comments([v])
    s = (_GEN_P if pretty else _GEN).generate(t)
    try:
        toks = _D.tokenize(s)
    except TokenError:
        return False
    if [(x.token_type, x.text) for x in toks] != _BASE:
        return False
    if "__SQLGLOT__LB__" in s:
        return False
    return _GEN_NC.generate(t) == "SELECT a"
