from sqlglot.time import format_time
from sqlglot.dialects.dialect import Dialect

_D = Dialect.get_or_raise("snowflake")

def rt(s: str) -> bool:
    """
    pre: 1 <= len(s) <= 4
    post: _ == True
    """
    u = format_time(s, _D.TIME_MAPPING, _D.TIME_TRIE)
    if not u:
        return True
    g = format_time(u, _D.INVERSE_TIME_MAPPING, _D.INVERSE_TIME_TRIE)
    if not g:
        return True
    u2 = format_time(g, _D.TIME_MAPPING, _D.TIME_TRIE)
    if not u2:
        return False
    g2 = format_time(u2, _D.INVERSE_TIME_MAPPING, _D.INVERSE_TIME_TRIE)
    return g2 == g
