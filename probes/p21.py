from sqlglot.errors import highlight_sql, ANSI_UNDERLINE, ANSI_RESET
TRIPLES = [(n, s, e) for n in range(1, 7) for s in range(n) for e in range(s, n)]

def hl(t: int, ctx: int) -> bool:
    """
    pre: 0 <= t < 56 and 0 <= ctx <= 7
    post: _ == True
    """
    n, s, e = TRIPLES[t]
    sql = "abcdefgh"[:n]
    formatted, start_context, highlight, end_context = highlight_sql(sql, [(s, e)], ctx)
    return (highlight == sql[s:e+1] and start_context == sql[max(0, s-ctx):s] and end_context == sql[e+1:e+1+ctx]
            and formatted == start_context + ANSI_UNDERLINE + highlight + ANSI_RESET + end_context)
