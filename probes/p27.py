from typing import Optional
from sqlglot.executor.python import PythonExecutor
from sqlglot.executor.table import ensure_tables
from sqlglot.optimizer import optimize
from sqlglot.planner import Plan
from sqlglot.schema import ensure_schema

_SCHEMA = ensure_schema({"t": {"a": "INT", "b": "INT"}, "u": {"a": "INT", "c": "INT"}})
_PLAN = Plan(optimize("SELECT t.b, u.c FROM t LEFT JOIN u ON t.a = u.a", _SCHEMA, leave_tables_isolated=True))

def same(x, y):
    # null-safe equality without short-circuit forks
    if x is None or y is None:
        return x is None and y is None
    return x == y

def count(rows, r):
    n = 0
    for q in rows:
        n = n + (1 if (same(q[0], r[0]) & same(q[1], r[1])) else 0)
    return n

def q_join(ta0: Optional[int], tb0: Optional[int], ta1: Optional[int], tb1: Optional[int],
       ua0: Optional[int], uc0: Optional[int]) -> bool:
    """
    post: _ == True
    """
    t = [{"a": ta0, "b": tb0}, {"a": ta1, "b": tb1}]
    u = [{"a": ua0, "c": uc0}]
    res = PythonExecutor(tables=ensure_tables({"t": t, "u": u})).execute(_PLAN)
    want = []
    for r in t:
        m = [s for s in u if r["a"] is not None and s["a"] is not None and r["a"] == s["a"]]
        if m:
            want.extend((r["b"], s["c"]) for s in m)
        else:
            want.append((r["b"], None))
    got = list(res.rows)
    if len(got) != len(want):
        return False
    ok = True
    for r in want:
        ok = ok & (count(got, r) == count(want, r))
    return bool(ok)
