from typing import Optional, List, Tuple
from sqlglot.executor import execute
from sqlglot.executor.python import PythonExecutor
from sqlglot.executor.table import ensure_tables
from sqlglot.optimizer import optimize
from sqlglot.planner import Plan
from sqlglot.schema import ensure_schema

_SCHEMA = ensure_schema({"t": {"a": "INT", "b": "INT"}})
_PLAN = Plan(optimize("SELECT a FROM t WHERE a = b", _SCHEMA, leave_tables_isolated=True))

def q1(a0: Optional[int], b0: Optional[int], a1: Optional[int], b1: Optional[int]) -> bool:
    """
    pre: True
    post: _ == True
    """
    rows = [{"a": a0, "b": b0}, {"a": a1, "b": b1}]
    res = PythonExecutor(tables=ensure_tables({"t": rows})).execute(_PLAN)
    got = [r[0] for r in res.rows]
    want = [r["a"] for r in rows if r["a"] is not None and r["b"] is not None and r["a"] == r["b"]]
    return got == want
