import logging
import shim
from sqlglot import exp
from sqlglot.dialects.dialect import Dialect
from sqlglot.errors import ErrorLevel, ParseError
from sqlglot.parser import Parser

_D = Dialect.get_or_raise(None)
_SQL = "SELECT a +"
_TOKS = _D.tokenize(_SQL)
MSGS = ["E0", "E1", "E2", "E3", "E4"]
LEVELS = [ErrorLevel.IGNORE, ErrorLevel.WARN, ErrorLevel.RAISE, ErrorLevel.IMMEDIATE]

class _Stub:
    def __init__(self):
        self.records = []
    def error(self, msg, *a):
        self.records.append(msg)
    def warning(self, msg, *a):
        self.records.append(msg)

class _H(logging.Handler):
    def __init__(self):
        super().__init__(); self.records = []
    def emit(self, r):
        self.records.append(r)

def funnel(level: int, n: int, m: int) -> bool:
    """
    pre: 0 <= level < 4 and 0 <= n <= 4 and 0 <= m <= 6
    post: _ == True
    """
    L = LEVELS[level]
    p = Parser(error_level=L, max_errors=m, dialect=_D)
    p.sql = _SQL
    p._tokens = _TOKS
    p._tokens_size = len(_TOKS)
    p._index = -1
    p._advance()
    h = _Stub(); import sqlglot.parser as _pm; old = _pm.logger; _pm.logger = h
    try:
        raised_at = -1
        for i in range(n):
            try:
                p.raise_error(MSGS[i])
            except ParseError:
                raised_at = i
                break
        final = None
        if raised_at < 0:
            try:
                p.check_errors()
            except ParseError as e:
                final = e
    finally:
        _pm.logger = old
    if L == ErrorLevel.IMMEDIATE:
        return (raised_at == 0) if n > 0 else (raised_at == -1 and final is None)
    if raised_at != -1:
        return False
    if L == ErrorLevel.IGNORE:
        return final is None and len(h.records) == 0
    if L == ErrorLevel.WARN:
        return final is None and len(h.records) == n
    # RAISE
    if n == 0:
        return final is None
    if final is None or len(final.errors) != n:
        return False
    parts = str(final).split("\n\n")
    shown = min(n, m)
    ok = len(parts) == shown + (1 if n > m else 0)
    if n > m:
        ok = ok and parts[-1] == "... and %d more" % (n - m)
    return ok

def tryparse(level: int, start: int, retreat: bool, beh: int) -> bool:
    """
    pre: 0 <= level < 4 and 0 <= start < 3 and 0 <= beh < 4
    post: _ == True
    """
    L = LEVELS[level]
    p = Parser(error_level=L, dialect=_D)
    p.sql = _SQL
    p._tokens = _TOKS
    p._tokens_size = len(_TOKS)
    p._index = -1
    p._advance(start + 1)
    def pm():
        if beh == 0:
            p._advance(); return exp.column("x")
        if beh == 1:
            p._advance(); return None
        if beh == 2:
            p.raise_error("boom"); return exp.column("y")
        p._advance(); p.raise_error("boom2"); return exp.column("y")
    res = p._try_parse(pm, retreat=retreat)
    if p.error_level != L or p.errors:
        return False
    if beh == 0:
        return res is not None and p._index == (start if retreat else start + 1)
    return res is None and p._index == start
