from sqlglot.expressions.core import Expression
from crosshair.tracers import NoTracing
_orig_hash = Expression.__hash__
def _native_hash(self):
    with NoTracing():
        return _orig_hash(self)
if not getattr(Expression, "_verif_shim", False):
    Expression.__hash__ = _native_hash
    Expression._verif_shim = True
