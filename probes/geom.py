import itertools, sys, collections
from sqlglot.dialects.dialect import Dialect
from sqlglot.errors import TokenError
from sqlglot.tokens import TokenType

def expect_pos(sql, k):
    line = 1; last = -1
    for j in range(k):
        c = sql[j]
        if c == "\n" or (c == "\r" and sql[j+1:j+2] != "\n"):
            line += 1; last = j
    return line, k - last

def check(D, sql):
    T = D.tokenizer_class
    try:
        toks = D.tokenize(sql)
    except TokenError:
        return None
    prev_end = -1
    rest = []; comments = []
    for t in toks:
        if not (0 <= t.start <= t.end < len(sql)): return "range"
        if t.start <= prev_end: return "overlap"
        rest.append(sql[prev_end+1:t.start])
        prev_end = t.end
        if (t.line, t.col) != expect_pos(sql, t.end): return "linecol"
        if t.token_type != TokenType.HINT:
            comments.extend(t.comments)
        if t.token_type == TokenType.VAR and t.text != sql[t.start:t.end+1]: return "vartext"
    rest.append(sql[prev_end+1:])
    gap = "".join(rest)
    # consume gap: whitespace and comments in order
    i = 0; ci = 0
    pairs = sorted(T._COMMENTS.items(), key=lambda kv: -len(kv[0]))
    while i < len(gap):
        if gap[i].isspace(): i += 1; continue
        if ci >= len(comments): return "gap-extra:" + repr(gap[i:i+3])
        c = comments[ci]
        for s_, e_ in pairs:
            if gap.startswith(s_, i) and gap.startswith(c, i + len(s_)):
                j = i + len(s_) + len(c)
                if e_ is None:
                    i = j; break
                if gap.startswith(e_, j):
                    i = j + len(e_); break
        else:
            return "gap-comment-mismatch"
        ci += 1
    if ci != len(comments): return "comments-left"
    return "ok"

if __name__ == "__main__":
    D = Dialect.get_or_raise(sys.argv[1] if len(sys.argv) > 1 and sys.argv[1] != "base" else None)
    ALPHA = ["a", "1", " ", "\n", "\r", "'", '"', "-", "/", "*", ".", "e", "x", "0", "@", "{", "#", "}", "$", "\\", ";", "_"]
    res = collections.Counter(); ex = {}
    for n in range(0, 5):
        for tup in itertools.product(ALPHA, repeat=n):
            s = "".join(tup)
            r = check(D, s)
            res[r] += 1
            if r not in (None, "ok") and len(ex.setdefault(r, [])) < 6: ex[r].append(s)
    print(res)
    for k, v in ex.items(): print(k, [repr(x) for x in v])
