import sys, time, itertools
import z3
import sqlglot
from sqlglot import exp, parse_one
from sqlglot.optimizer.simplify import simplify
from sqlglot.optimizer.normalize import normalize
from sqlglot.optimizer.annotate_types import annotate_types

class Unsupported(Exception): pass

INT_COLS = {"x","y","z","a","b","c","i","j"}
BOOL_COLS = {"p","q","r","s"}

class Enc:
    def __init__(self):
        self.vars = {}
    def col(self, name, kind):
        if name not in self.vars:
            self.vars[name] = (kind, z3.Bool(f"{name}_null"), z3.Int(f"{name}_v") if kind=="int" else z3.Bool(f"{name}_v"))
        k, n, v = self.vars[name]
        return (k, n, v)
    def ev(self, e):
        T, F = z3.BoolVal(True), z3.BoolVal(False)
        if isinstance(e, exp.Paren): return self.ev(e.this)
        if isinstance(e, exp.Column):
            if e.table: raise Unsupported("qualified")
            nm = e.name.lower()
            if nm in INT_COLS: return self.col(nm, "int")
            if nm in BOOL_COLS: return self.col(nm, "bool")
            raise Unsupported("col "+nm)
        if isinstance(e, exp.Boolean): return ("bool", F, z3.BoolVal(bool(e.this)))
        if isinstance(e, exp.Null): return ("null", T, None)
        if isinstance(e, exp.Literal):
            if e.is_string: raise Unsupported("string")
            v = e.to_py()
            if not isinstance(v, int): raise Unsupported("float")
            return ("int", F, z3.IntVal(v))
        if isinstance(e, exp.Neg):
            k,n,v = self.num(e.this); return ("int", n, -v)
        if isinstance(e, (exp.Add, exp.Sub, exp.Mul)):
            k1,n1,v1 = self.num(e.left); k2,n2,v2 = self.num(e.right)
            v = v1+v2 if isinstance(e, exp.Add) else (v1-v2 if isinstance(e, exp.Sub) else v1*v2)
            return ("int", z3.Or(n1,n2), v)
        if isinstance(e, (exp.EQ, exp.NEQ, exp.LT, exp.LTE, exp.GT, exp.GTE)):
            l = self.ev(e.left); r = self.ev(e.right)
            l, r = self.unify(l, r)
            k1,n1,v1 = l; k2,n2,v2 = r
            if k1 == "bool":
                if not isinstance(e,(exp.EQ,exp.NEQ)): raise Unsupported("bool order")
                v = (v1 == v2) if isinstance(e, exp.EQ) else (v1 != v2)
            else:
                v = {exp.EQ: v1==v2, exp.NEQ: v1!=v2, exp.LT: v1<v2, exp.LTE: v1<=v2, exp.GT: v1>v2, exp.GTE: v1>=v2}[type(e)]
            return ("bool", z3.Or(n1,n2), v)
        if isinstance(e, exp.Is):
            l = self.ev(e.left); r = e.right
            neg = bool(e.args.get("negate"))
            if isinstance(r, exp.Not): r = r.this; neg = not neg
            if isinstance(r, exp.Null):
                res = l[1]
            elif isinstance(r, exp.Boolean):
                b = self.boolv(l); res = z3.And(z3.Not(b[1]), b[2] == z3.BoolVal(bool(r.this)))
            else: raise Unsupported("is")
            return ("bool", F, z3.Not(res) if neg else res)
        if isinstance(e, exp.Not):
            k,n,v = self.boolv(self.ev(e.this)); return ("bool", n, z3.Not(v))
        if isinstance(e, exp.And):
            _,n1,v1 = self.boolv(self.ev(e.left)); _,n2,v2 = self.boolv(self.ev(e.right))
            f1 = z3.And(z3.Not(n1), z3.Not(v1)); f2 = z3.And(z3.Not(n2), z3.Not(v2))
            isfalse = z3.Or(f1,f2); istrue = z3.And(z3.Not(n1), v1, z3.Not(n2), v2)
            return ("bool", z3.And(z3.Not(isfalse), z3.Not(istrue)), istrue)
        if isinstance(e, exp.Or):
            _,n1,v1 = self.boolv(self.ev(e.left)); _,n2,v2 = self.boolv(self.ev(e.right))
            t1 = z3.And(z3.Not(n1), v1); t2 = z3.And(z3.Not(n2), v2)
            istrue = z3.Or(t1,t2); isfalse = z3.And(z3.Not(n1), z3.Not(v1), z3.Not(n2), z3.Not(v2))
            return ("bool", z3.And(z3.Not(isfalse), z3.Not(istrue)), istrue)
        if isinstance(e, exp.Between):
            return self.ev(exp.and_(exp.GTE(this=e.this.copy(), expression=e.args["low"].copy()), exp.LTE(this=e.this.copy(), expression=e.args["high"].copy())))
        if isinstance(e, exp.In):
            if e.args.get("query") or e.args.get("unnest") or not e.expressions: raise Unsupported("in")
            ors = None
            for x in e.expressions:
                c = exp.EQ(this=e.this.copy(), expression=x.copy())
                ors = c if ors is None else exp.Or(this=ors, expression=c)
            return self.ev(ors)
        if isinstance(e, exp.Coalesce):
            args = [e.this] + list(e.expressions)
            vals = [self.ev(a) for a in args]
            kinds = {v[0] for v in vals if v[0] != "null"}
            if len(kinds) > 1: raise Unsupported("coalesce kinds")
            kind = kinds.pop() if kinds else "null"
            if kind == "null": return ("null", T, None)
            res = (kind, T, z3.IntVal(0) if kind=="int" else F)
            for k,n,v in reversed(vals):
                if k == "null": continue
                res = (kind, z3.And(n, res[1]), z3.If(n, res[2], v))
            return res
        if isinstance(e, exp.Case) or isinstance(e, exp.If):
            raise Unsupported("case")
        raise Unsupported(type(e).__name__)
    def num(self, e):
        k,n,v = self.ev(e)
        if k == "null": return ("int", z3.BoolVal(True), z3.IntVal(0))
        if k != "int": raise Unsupported("num of bool")
        return (k,n,v)
    def boolv(self, t):
        k,n,v = t
        if k == "null": return ("bool", z3.BoolVal(True), z3.BoolVal(False))
        if k != "bool": raise Unsupported("bool of int")
        return t
    def unify(self, l, r):
        if l[0] == "null" and r[0] == "null": return self.boolv(l), self.boolv(r)
        if l[0] == "null": return ((r[0], z3.BoolVal(True), r[2]), r)
        if r[0] == "null": return (l, (l[0], z3.BoolVal(True), l[2]))
        if l[0] != r[0]: raise Unsupported("mixed cmp")
        return l, r

def equiv(e1, e2, timeout=5000):
    enc = Enc()
    a = enc.ev(e1); b = enc.ev(e2)
    if a[0] == "null" and b[0] == "null": return "unsat", None
    if a[0] == "null": a = (b[0], z3.BoolVal(True), b[2])
    if b[0] == "null": b = (a[0], z3.BoolVal(True), a[2])
    if a[0] != b[0]: return "kind-mismatch", None
    s = z3.Solver(); s.set("timeout", timeout)
    same = z3.Or(z3.And(a[1], b[1]), z3.And(z3.Not(a[1]), z3.Not(b[1]), a[2] == b[2]))
    s.add(z3.Not(same))
    r = s.check()
    return str(r), (s.model() if r == z3.sat else None)

if __name__ == "__main__":
    path = "/repo/tests/fixtures/optimizer/simplify.sql"
    lines = [l.rstrip("\n") for l in open(path)]
    pairs = []
    buf = []
    for l in lines:
        if l.startswith("--") or l.startswith("#") or not l.strip():
            continue
        buf.append(l)
        if len(buf) == 2:
            pairs.append(tuple(buf)); buf = []
    t0 = time.time(); stats = {}
    bad = []
    for src, _ in pairs:
        try:
            e = parse_one(src.rstrip(";"))
            if isinstance(e, exp.Query): raise Unsupported("query")
            out = simplify(e.copy())
            r, m = equiv(e, out)
        except Unsupported as u:
            r = "unsupported"
        except Exception as ex:
            r = "error:" + type(ex).__name__
        stats[r] = stats.get(r, 0) + 1
        if r == "sat": bad.append((src, out.sql(), m))
    print(stats, "time", round(time.time()-t0,2))
    for b in bad[:40]: print("  VIOL", b[0], "=>", b[1], "|", b[2])
