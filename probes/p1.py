import sqlglot
from sqlglot import exp
from sqlglot.dialects.dialect import Dialect
from sqlglot.tokens import TokenType

_D = Dialect.get_or_raise("mysql")
_GEN = _D.generator()
_TOK = _D.tokenizer_class(dialect=_D)

def roundtrip_string(v: str) -> bool:
    """
    pre: len(v) <= 3
    post: _ == True
    """
    sql = _GEN.escape_str(v)
    sql = "'" + sql + "'"
    toks = _TOK.tokenize(sql)
    return len(toks) == 1 and toks[0].token_type == TokenType.STRING and toks[0].text == v
