"""./vcheck <Cxx> --replay <path>: re-executes a replay file against /repo's current tree and prints what the real code does."""
from __future__ import annotations

import json
import sys


def main() -> int:
    prop, path = sys.argv[1], sys.argv[2]
    doc = json.load(open(path))
    print(f"replay of {path} (property {doc.get('property')}, engine {doc.get('engine')})")
    if doc.get("engine") == "xh":
        from engines.xh.runner import replay

        rp = replay(doc["harness"], doc["params"], doc["args"])
        print(json.dumps(rp, indent=1)[:4000])
        holds = rp.get("ok") and rp.get("holds")
        print("RESULT:", "property holds on this input now" if holds else "property FAILS on this input")
        return 0 if holds else 1
    if prop == "C06":
        from props.C06 import replay_scalar
        import sqlglot
        from sqlglot.optimizer.simplify import simplify

        e = sqlglot.parse_one(doc["program"]) if doc.get("kind") not in ("step",) else sqlglot.parse_one(doc["before"])
        print("input     :", doc.get("before"))
        print("recorded  :", doc.get("after"))
        print("simplify(input) now:", simplify(sqlglot.parse_one(doc["before"])).sql())
        if doc.get("assignment") is not None:
            rp = replay_scalar({"before": doc["before"], "after": doc["after"], "assignment": doc["assignment"], "kinds": doc.get("kinds") or
                                {k: ("bool" if isinstance(v, bool) else "int") for k, v in doc["assignment"].items()}})
            print(json.dumps(rp, indent=1, default=str)[:3000])
            return 1 if rp.get("ok") and rp.get("differs") else 0
        return 1
    if prop == "C03":
        import sqlglot
        from sqlglot.optimizer.optimizer import optimize
        from props.C03 import SQLGLOT_SCHEMA, replay_rel

        q = sqlglot.parse_one(doc["program"], read="duckdb")
        opt = optimize(q, schema=SQLGLOT_SCHEMA, dialect="duckdb").sql("duckdb")
        print("program   :", doc["program"])
        print("optimized now:", opt)
        data = {k: [tuple(r) for r in v] for k, v in (doc.get("data") or {}).items()}
        rp = replay_rel(q.sql("duckdb"), opt, data, False)
        print(json.dumps(rp, indent=1, default=str)[:3000])
        return 1 if (rp.get("ok") and rp.get("differs")) or not rp.get("ok") else 0
    print("no replayer for", prop)
    return 3


if __name__ == "__main__":
    sys.exit(main())
