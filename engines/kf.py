"""Known findings (DESIGN §4.4): /verif/known_findings.json is committed and never written at run time."""
import json
import os

VERIF = os.path.dirname(os.path.dirname(os.path.abspath(__file__)))
PATH = os.path.join(VERIF, "known_findings.json")


def load(prop_id: str) -> list[dict]:
    if not os.path.exists(PATH):
        return []
    with open(PATH) as fh:
        data = json.load(fh)
    return [f for f in data.get("findings", []) if f.get("property") == prop_id]
