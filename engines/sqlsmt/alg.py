"""The six-operation algebra the SQL evaluator is written against (DESIGN §3, E2).

Z3Alg : terms are z3 expressions; data-dependent control flow is always If, so one query = one formula.
PyAlg : terms are Python bool / int; used to validate the evaluator against DuckDB/SQLite and as the in-process
        oracle for the executor check (C11), also under CrossHair (non-short-circuit operators keep payloads from
        forking paths).
"""
from __future__ import annotations


class PyAlg:
    name = "py"
    T = True
    F = False

    @staticmethod
    def And(*xs):
        r = True
        for x in xs:
            r = r & bool(x)
        return r

    @staticmethod
    def Or(*xs):
        r = False
        for x in xs:
            r = r | bool(x)
        return r

    @staticmethod
    def Not(x):
        return not x

    @staticmethod
    def If(c, a, b):
        return a if c else b

    @staticmethod
    def Int(i):
        return int(i)

    @staticmethod
    def Bool(b):
        return bool(b)

    @staticmethod
    def Eq(a, b):
        return a == b

    @staticmethod
    def Sum(xs):
        s = 0
        for x in xs:
            s = s + x
        return s

    @staticmethod
    def is_const(x):
        return True

    @staticmethod
    def const_bool(x):
        return bool(x)


class Z3Alg:
    name = "z3"

    def __init__(self):
        import z3

        self.z3 = z3
        self.T = z3.BoolVal(True)
        self.F = z3.BoolVal(False)

    def And(self, *xs):
        xs = [x for x in xs if not (self.z3.is_true(x))]
        if any(self.z3.is_false(x) for x in xs):
            return self.F
        if not xs:
            return self.T
        if len(xs) == 1:
            return xs[0]
        return self.z3.And(*xs)

    def Or(self, *xs):
        xs = [x for x in xs if not (self.z3.is_false(x))]
        if any(self.z3.is_true(x) for x in xs):
            return self.T
        if not xs:
            return self.F
        if len(xs) == 1:
            return xs[0]
        return self.z3.Or(*xs)

    def Not(self, x):
        if self.z3.is_true(x):
            return self.F
        if self.z3.is_false(x):
            return self.T
        return self.z3.Not(x)

    def If(self, c, a, b):
        if self.z3.is_true(c):
            return a
        if self.z3.is_false(c):
            return b
        return self.z3.If(c, a, b)

    def Int(self, i):
        return self.z3.IntVal(int(i))

    def Bool(self, b):
        return self.T if b else self.F

    def Eq(self, a, b):
        return a == b

    def Sum(self, xs):
        xs = list(xs)
        if not xs:
            return self.z3.IntVal(0)
        if len(xs) == 1:
            return xs[0]
        return self.z3.Sum(xs)

    def is_const(self, x):
        return self.z3.is_true(x) or self.z3.is_false(x)

    def const_bool(self, x):
        return self.z3.is_true(x)
