"""Bounded families of scalar expressions for C06 (as SQL text in the base dialect)."""
from __future__ import annotations

import itertools
import random
import re

_WORD = re.compile(r"\b[ABC]\b")

CONSTS = ["-1", "0", "1", "2"]
CMPS = ["=", "<>", "<", "<=", ">", ">="]


def atoms_core(var="x", consts=("0", "1", "2")):
    return [f"{var} {op} {c}" for op in CMPS for c in consts]


def atoms_all():
    out = []
    for op in CMPS:
        for c in CONSTS:
            out.append(f"x {op} {c}")
            out.append(f"{c} {op} x")
        out.append(f"x {op} y")
        out.append(f"x {op} NULL")
    out += ["x IS NULL", "x IS NOT NULL", "p", "q", "NOT p", "TRUE", "FALSE", "NULL", "p IS TRUE", "p IS FALSE", "p IS NOT TRUE",
            "x BETWEEN 0 AND 2", "x BETWEEN 2 AND 0", "x NOT BETWEEN 0 AND 1", "x IN (0, 1)", "x IN (1, NULL)", "x NOT IN (0, 2)",
            "x IN (1)", "COALESCE(x, 0) = 0", "COALESCE(x, y) > 1", "p = TRUE", "p <> q", "p = q"]
    return out


def pairs_same_var():
    """a1 CONN a2 with both atoms on x: reaches _simplify_comparison, remove_complements, absorb, uniq_sort."""
    core = atoms_core()
    out = []
    for a, b in itertools.product(core, core):
        for conn in ("AND", "OR"):
            out.append(f"{a} {conn} {b}")
    return out


def negated_pairs(rnd: random.Random, n: int):
    core = atoms_core() + ["x IS NULL", "x IS NOT NULL", "p", "x = y"]
    out = []
    for _ in range(n):
        a, b = rnd.choice(core), rnd.choice(core)
        conn = rnd.choice(["AND", "OR"])
        form = rnd.randrange(4)
        if form == 0:
            out.append(f"NOT ({a} {conn} {b})")
        elif form == 1:
            out.append(f"NOT {a if ' ' not in a else '(' + a + ')'} {conn} {b}")
        elif form == 2:
            out.append(f"{a} {conn} NOT ({b})")
        else:
            out.append(f"NOT (NOT ({a}) {conn} NOT ({b}))")
    return out


TEMPLATES3 = [
    "A AND (A OR B)", "A OR (A AND B)", "A AND (NOT A OR B)", "A OR (NOT A AND B)", "(A OR B) AND (A OR C)", "(A AND B) OR (A AND C)",
    "(A OR B) AND (A OR NOT B)", "(A AND B) OR (A AND NOT B)", "A AND NOT A", "A OR NOT A", "A AND B AND A", "A OR B OR A",
    "NOT (A AND B) OR C", "A AND (B OR C)", "A OR (B AND C)", "(A AND B) OR C", "(A OR B) AND C", "NOT A AND NOT B", "NOT (A OR B) AND C",
    "A AND B OR A AND C OR B AND C", "(A OR B) AND (B OR C) AND (A OR C)", "A = B", "A <> B", "(A) IS TRUE", "NOT (A) IS NULL",
    "CASE WHEN A THEN B ELSE C END", "CASE WHEN A THEN TRUE ELSE FALSE END", "IF(A, B, C)", "COALESCE(A, B)", "A AND NULL", "A OR NULL",
    "A AND TRUE", "A OR FALSE", "A AND FALSE", "A OR TRUE", "NOT (A AND TRUE)", "(A AND B) AND (NOT A OR C)",
    # multi-branch conditionals with constant / NULL conditions in every position
    "CASE WHEN A THEN B WHEN TRUE THEN C END", "CASE WHEN A THEN B WHEN FALSE THEN C END", "CASE WHEN TRUE THEN A WHEN B THEN C END",
    "CASE WHEN FALSE THEN A WHEN B THEN C END", "CASE WHEN NULL THEN A WHEN B THEN C ELSE A END", "CASE WHEN A THEN B WHEN C THEN A ELSE B END",
    "CASE WHEN A THEN TRUE WHEN B THEN FALSE END", "CASE WHEN A THEN B WHEN B THEN C WHEN TRUE THEN A END", "CASE WHEN A THEN B END",
    "IF(A, B, NULL)", "IF(NULL, A, B)", "IF(TRUE, A, B)", "IF(A, TRUE, FALSE)", "IF(A, FALSE, TRUE)", "COALESCE(A, NULL, B)", "COALESCE(NULL, A)",
    "COALESCE(A, TRUE)", "COALESCE(A, FALSE) = B", "CASE WHEN A THEN B ELSE C END = B", "NOT CASE WHEN A THEN B ELSE C END",
]


def templates(rnd: random.Random, per_template: int):
    pool = ["p", "q", "r", "x = 1", "x > 1", "x <> 1", "x < 1", "x >= 1", "x IS NULL", "x = y", "y < 2", "x IS NOT NULL", "x IN (0, 1)", "NOT p"]
    out = []
    for t in TEMPLATES3:
        combos = list(itertools.product(pool, repeat=3))
        rnd.shuffle(combos)
        for a, b, c in combos[:per_template]:
            def w(s):
                return s if s.isalpha() else "(" + s + ")"
            out.append(_WORD.sub(lambda m: w({"A": a, "B": b, "C": c}[m.group(0)]), t))
    return out


def arithmetic():
    out = []
    terms = ["x", "y", "x + 1", "x - 1", "1 - x", "x * 2", "-x", "x + y", "x * -1", "0 - x", "x + 1 + 1", "1 + x - 2", "x * 0", "x + 0", "0 + x",
             "x * 1", "2 * x", "x - x", "x + 1 - 1", "-(-x)", "-(x + 1)", "COALESCE(x, 1)", "COALESCE(x, y, 0)", "COALESCE(NULL, x)",
             "CASE WHEN x > 0 THEN 1 ELSE 0 END", "CASE x WHEN 1 THEN 2 ELSE 0 END", "NULLIF(x, 0)", "IF(x > 1, x, 1)", "1 + 1", "2 * 2 - 1",
             "CASE WHEN x = 1 THEN 5 WHEN TRUE THEN 6 END", "CASE WHEN x = 1 THEN 2 WHEN y = 1 THEN 0 WHEN TRUE THEN 1 END",
             "CASE WHEN x > 0 THEN 1 WHEN FALSE THEN 2 ELSE 0 END", "CASE WHEN TRUE THEN x WHEN y > 0 THEN 1 END", "CASE WHEN x IS NULL THEN 0 WHEN TRUE THEN x END",
             "CASE x WHEN 1 THEN 2 WHEN 1 THEN 0 END", "COALESCE(x, NULL, 1)", "COALESCE(NULL, x, y)", "COALESCE(x, y, NULL)", "COALESCE(x, NULL)",
             "COALESCE(x, 1, y)", "COALESCE(1, x)", "IF(x > 0, 1, NULL)", "IF(NULL, x, y)", "NULLIF(x, x)", "NULLIF(x, NULL)", "x * 0 + y", "0 * x", "x - 0", "x * y * 0",
             "x + y - y", "x + (1 - 1)", "(x + 1) * 2", "2 - (x + 1)", "-(1 - x)", "1 - -x"]
    for t in terms:
        for op in CMPS:
            for c in CONSTS:
                out.append(f"{t} {op} {c}")
        out.append(f"{t} = y")
        out.append(t)
    return out


def random_deep(rnd: random.Random, n: int, depth: int = 3):
    atoms = atoms_all()

    def gen(d):
        if d == 0 or rnd.random() < 0.25:
            return rnd.choice(atoms)
        k = rnd.randrange(6)
        if k == 0:
            return f"NOT ({gen(d - 1)})"
        if k in (1, 2):
            return f"({gen(d - 1)}) AND ({gen(d - 1)})"
        if k in (3, 4):
            return f"({gen(d - 1)}) OR ({gen(d - 1)})"
        return f"CASE WHEN {gen(d - 1)} THEN {gen(d - 1)} ELSE {gen(d - 1)} END"

    return [gen(depth) for _ in range(n)]


def fixtures(path: str):
    """inputs of a `-- comment / input; / expected;` fixture file (every statement on one line)."""
    out = []
    try:
        lines = [l.rstrip("\n") for l in open(path)]
    except OSError:
        return out
    buf = []
    for l in lines:
        if not l.strip() or l.startswith("--") or l.startswith("#"):
            continue
        buf.append(l.rstrip(";"))
        if len(buf) == 2:
            out.append(buf[0])
            buf = []
    return out


def programs(tier: str, seed: int):
    rnd = random.Random(seed)
    progs = []
    progs += [("fixture:simplify", s) for s in fixtures("/repo/tests/fixtures/optimizer/simplify.sql")]
    progs += [("fixture:normalize", s) for s in fixtures("/repo/tests/fixtures/optimizer/normalize.sql")]
    progs += [("atom", s) for s in atoms_all()]
    progs += [("pair", s) for s in pairs_same_var()]
    progs += [("arith", s) for s in arithmetic()]
    if tier == "quick":
        progs += [("negpair", s) for s in negated_pairs(rnd, 2000)]
        progs += [("template", s) for s in templates(rnd, 80)]
        progs += [("random", s) for s in random_deep(rnd, 1500, 3)]
        progs += [("random4", s) for s in random_deep(rnd, 300, 4)]
    else:
        progs += [("negpair", s) for s in negated_pairs(rnd, 6000)]
        progs += [("template", s) for s in templates(rnd, 400)]
        progs += [("random", s) for s in random_deep(rnd, 6000, 3)]
        progs += [("random4", s) for s in random_deep(rnd, 3000, 4)]
    seen = set()
    out = []
    for fam, s in progs:
        if s not in seen:
            seen.add(s)
            out.append((fam, s))
    return out
