"""Bounded families of SELECT queries over x(a,b) y(b,c) z(b,c) for C03 / C11 (DuckDB-compatible SQL text).

The family is built around the guards named in C03: join kind x which side carries the predicate x WHERE/ON placement x
derived table / CTE x CTE referenced once / twice x LIMIT+ORDER BY inside x DISTINCT x GROUP BY/HAVING x [NOT] IN /
EXISTS / scalar / ANY / ALL sub-query, correlated or not x set operations.
"""
from __future__ import annotations

import itertools
import random

JOINS = ["JOIN", "LEFT JOIN", "RIGHT JOIN", "FULL JOIN"]
PRED_X = ["x.a > 0", "x.a = 1", "x.b IS NULL", "x.a + x.b > 1"]
PRED_Y = ["y.c = 1", "y.c IS NULL", "y.c > 0", "COALESCE(y.c, 0) = 0", "y.c IS NOT NULL"]
PRED_XY = ["x.a = 1 OR y.c = 1", "x.a < y.c", "x.a = y.c AND y.c > 0"]


def joins():
    out = []
    for jt in JOINS:
        for on_extra in ["", " AND y.c > 0", " AND x.a > 0"]:
            base = f"SELECT x.a, y.c FROM x {jt} y ON x.b = y.b{on_extra}"
            out.append(base)
            for w in PRED_X + PRED_Y + PRED_XY:
                out.append(f"{base} WHERE {w}")
    for w in [""] + [" WHERE " + p for p in PRED_X[:2] + PRED_Y[:2] + ["x.b = y.b", "x.b = y.b AND y.c > 0"]]:
        out.append(f"SELECT x.a, y.c FROM x CROSS JOIN y{w}")
        out.append(f"SELECT x.a, y.c FROM x, y{w}")
    # three-way joins, reordering candidates
    for j1, j2 in itertools.product(["JOIN", "LEFT JOIN"], ["JOIN", "LEFT JOIN", "RIGHT JOIN"]):
        out.append(f"SELECT x.a, y.c, z.c AS zc FROM x {j1} y ON x.b = y.b {j2} z ON y.b = z.b")
        out.append(f"SELECT x.a, z.c FROM x {j1} z ON x.b = z.b {j2} y ON y.b = x.b WHERE z.c > 0")
    out.append("SELECT x.a FROM x JOIN y ON x.b = y.b JOIN z ON x.b = z.b AND z.c = y.c")
    out.append("SELECT * FROM x JOIN y USING (b)")
    out.append("SELECT x.a, b FROM x LEFT JOIN y USING (b) WHERE y.c > 0")
    return out


def derived():
    out = []
    inners = ["SELECT a, b FROM x", "SELECT a, b FROM x WHERE a > 0", "SELECT DISTINCT a, b FROM x", "SELECT a, b FROM x ORDER BY a, b LIMIT 1",
              "SELECT a, SUM(b) AS b FROM x GROUP BY a", "SELECT a, b FROM x ORDER BY a DESC NULLS FIRST, b LIMIT 2",
              "SELECT a + 1 AS a, b FROM x", "SELECT a, COUNT(*) AS b FROM x GROUP BY a HAVING COUNT(*) > 1", "SELECT MAX(a) AS a, MIN(b) AS b FROM x",
              # an aggregation without GROUP BY next to a constant column: it returns its one row whatever a WHERE filters out
              "SELECT SUM(a) AS a, 0 AS b FROM x"]
    outers = ["SELECT q.a FROM ({i}) AS q WHERE q.b > 0", "SELECT q.a, q.b FROM ({i}) AS q WHERE q.a = 1", "SELECT q.a, y.c FROM ({i}) AS q JOIN y ON q.b = y.b",
              "SELECT q.a, y.c FROM ({i}) AS q LEFT JOIN y ON q.b = y.b WHERE y.c IS NULL", "SELECT y.c, q.a FROM y LEFT JOIN ({i}) AS q ON q.b = y.b AND q.a > 0",
              "SELECT q.a FROM ({i}) AS q", "SELECT COUNT(*) AS n FROM ({i}) AS q", "SELECT q.a, SUM(q.b) AS s FROM ({i}) AS q GROUP BY q.a",
              "WITH t AS ({i}) SELECT t.a FROM t WHERE t.b > 0", "WITH t AS ({i}) SELECT t1.a, t2.b FROM t AS t1 JOIN t AS t2 ON t1.a = t2.b",
              "WITH t AS ({i}) SELECT t.a, y.c FROM t JOIN y ON t.b = y.b WHERE y.c > 0", "WITH t AS ({i}), u AS (SELECT a FROM t WHERE b > 0) SELECT a FROM u",
              "WITH t AS ({i}) SELECT a FROM t UNION ALL SELECT b FROM t", "WITH t AS ({i}) SELECT 1 AS one FROM x"]
    for i, o in itertools.product(inners, outers):
        out.append(o.format(i=i))
    return out


def subqueries():
    out = []
    subs_unc = ["SELECT b FROM y", "SELECT b FROM y WHERE c > 0", "SELECT MAX(b) FROM y", "SELECT b FROM y GROUP BY b",
                "SELECT b FROM y GROUP BY b, c", "SELECT MAX(b) FROM y GROUP BY c", "SELECT b FROM y GROUP BY b HAVING COUNT(*) > 1",
                "SELECT DISTINCT b FROM y", "SELECT b FROM y ORDER BY b, c LIMIT 1", "SELECT b + 1 FROM y"]
    subs_cor = ["SELECT b FROM y WHERE y.c = x.b", "SELECT y.b FROM y WHERE y.c > x.b", "SELECT b FROM y WHERE y.c = x.b AND y.b > 0"]
    for s in subs_unc + subs_cor:
        out.append(f"SELECT a FROM x WHERE a IN ({s})")
        out.append(f"SELECT a FROM x WHERE a NOT IN ({s})")
        out.append(f"SELECT a FROM x WHERE EXISTS ({s})")
        out.append(f"SELECT a FROM x WHERE NOT EXISTS ({s})")
        out.append(f"SELECT a FROM x WHERE a > ANY ({s})")
        out.append(f"SELECT a FROM x WHERE a = ALL ({s})")
        out.append(f"SELECT a FROM x WHERE a IN ({s}) OR b > 0")
        out.append(f"SELECT a, a IN ({s}) AS f FROM x")
    scal = ["SELECT MAX(c) FROM y WHERE y.b = x.a", "SELECT SUM(c) FROM y WHERE y.b = x.a", "SELECT COUNT(*) FROM y WHERE y.b = x.a",
            "SELECT MAX(c) FROM y", "SELECT MIN(c) FROM y WHERE y.b = x.a AND y.c > 0", "SELECT COUNT(c) FROM y WHERE y.b > x.a"]
    for s in scal:
        out.append(f"SELECT a, ({s}) AS m FROM x")
        out.append(f"SELECT a FROM x WHERE ({s}) > 0")
        out.append(f"SELECT a FROM x WHERE b = ({s})")
        out.append(f"SELECT a FROM x WHERE COALESCE(({s}), 0) = 0")
    # scalar sub-queries that are not aggregates (no row -> NULL; more than one row is assumed away) outside a plain conjunct
    for s in ["SELECT c FROM y WHERE y.b > 1", "SELECT c FROM y WHERE y.b = x.a"]:
        out.append(f"SELECT a FROM x WHERE a = 1 OR a > ({s})")
        out.append(f"SELECT a FROM x WHERE a > ({s})")
        out.append(f"SELECT a FROM x WHERE NOT a > ({s})")
    return out


def aggregates():
    out = []
    for g in ["SELECT a, SUM(b) AS s FROM x GROUP BY a", "SELECT a, COUNT(*) AS n, COUNT(b) AS m FROM x GROUP BY a", "SELECT SUM(b) AS s, COUNT(*) AS n FROM x",
              "SELECT x.a, MAX(y.c) AS m FROM x LEFT JOIN y ON x.b = y.b GROUP BY x.a", "SELECT x.a, COUNT(y.c) AS n FROM x JOIN y ON x.b = y.b GROUP BY x.a HAVING COUNT(y.c) > 0",
              "SELECT a, MIN(b) AS lo, MAX(b) AS hi FROM x WHERE a > 0 GROUP BY a HAVING MIN(b) < 2", "SELECT DISTINCT a FROM x", "SELECT DISTINCT a, b FROM x WHERE b > 0",
              "SELECT COUNT(DISTINCT a) AS n FROM x", "SELECT a + 1 AS k, SUM(b) AS s FROM x GROUP BY a + 1", "SELECT a, SUM(b) AS s FROM x GROUP BY a ORDER BY a LIMIT 1"]:
        out.append(g)
        out.append(f"SELECT * FROM ({g}) AS q")
    return out


def setops():
    out = []
    for op in ["UNION", "UNION ALL", "INTERSECT", "INTERSECT ALL", "EXCEPT", "EXCEPT ALL"]:
        out.append(f"SELECT a FROM x {op} SELECT b FROM y")
        out.append(f"SELECT q.a FROM (SELECT a FROM x {op} SELECT b FROM y) AS q WHERE q.a > 0")
        out.append(f"SELECT a, b FROM x WHERE a > 0 {op} SELECT b, c FROM y WHERE c > 0")
        out.append(f"WITH t AS (SELECT a FROM x {op} SELECT b FROM y) SELECT t.a, x.b FROM t JOIN x ON t.a = x.a")
    return out


def ordering():
    out = []
    for o in ["a", "a DESC", "a NULLS FIRST", "a DESC NULLS LAST", "a, b DESC", "b, a"]:
        out.append(f"SELECT a, b FROM x ORDER BY {o}")
        out.append(f"SELECT a, b FROM x ORDER BY {o} LIMIT 1")
        out.append(f"SELECT a, b FROM x WHERE b > 0 ORDER BY {o} LIMIT 2 OFFSET 1")
        out.append(f"SELECT q.a FROM (SELECT a, b FROM x ORDER BY {o} LIMIT 1) AS q WHERE q.a > 0")
    out.append("SELECT a AS k, b FROM x ORDER BY k, b")
    out.append("SELECT a, b FROM x ORDER BY 1, 2 LIMIT 1")
    return out


def multi_join():
    """Derived tables / CTEs with their own WHERE, LIMIT, DISTINCT, aggregates or COALESCE projections placed under chains of
    joins with sides: the shapes merge_subqueries, eliminate_joins, pushdown_projections and pushdown_predicates guard."""
    out = []
    inners = ["SELECT a, b FROM x WHERE a > 1", "SELECT a, b FROM x", "SELECT a, COALESCE(b, 0) AS b FROM x", "SELECT DISTINCT a, b FROM x",
              "SELECT a, b FROM x ORDER BY a, b LIMIT 1", "SELECT MAX(a) AS a, MIN(b) AS b FROM x", "SELECT a, b FROM x UNION ALL SELECT b, c FROM y",
              # all-aggregate projections that do NOT have exactly one row
              "SELECT SUM(a) AS a, MAX(b) AS b FROM x GROUP BY a", "SELECT SUM(a) AS a, MAX(b) AS b FROM x HAVING SUM(a) > 0"]
    for i in inners:
        for j2 in ["RIGHT JOIN", "FULL JOIN", "LEFT JOIN", "JOIN"]:
            out.append(f"SELECT q.a, y.c, z.c AS zc FROM ({i}) AS q JOIN y ON q.b = y.b {j2} z ON y.b = z.b")
            out.append(f"WITH q AS ({i}) SELECT q.a, y.c, z.c AS zc FROM q JOIN y ON q.b = y.b {j2} z ON y.b = z.b")
        out.append(f"SELECT y.c, q.a FROM y LEFT JOIN ({i}) AS q ON y.b = q.b")
        out.append(f"SELECT y.c, q.b FROM y LEFT JOIN ({i}) AS q ON y.b = q.a WHERE q.b = 0")
        out.append(f"SELECT y.c FROM y LEFT JOIN ({i}) AS q ON y.b = q.b")
        out.append(f"SELECT y.c FROM y CROSS JOIN ({i}) AS q")
        out.append(f"SELECT y.c FROM y JOIN ({i}) AS q ON y.b = q.b")
        out.append(f"SELECT 1 AS one FROM ({i}) AS q")
        out.append(f"SELECT q.a FROM ({i}) AS q")
        out.append(f"SELECT COUNT(*) AS n FROM ({i}) AS q")
    out += [
        "SELECT x.a, y.c, z.c AS zc FROM x RIGHT JOIN y ON x.b = y.b RIGHT JOIN z ON y.b = z.b WHERE x.a > 0",
        "SELECT x.a, y.c, z.c AS zc FROM x RIGHT JOIN y ON x.b = y.b RIGHT JOIN z ON y.b = z.b WHERE y.c > 0",
        "SELECT x.a, z.c FROM x LEFT JOIN y ON x.b = y.b LEFT JOIN z ON y.b = z.b WHERE y.c IS NULL",
        "SELECT x.a FROM x LEFT JOIN (SELECT b FROM y GROUP BY b) AS u ON x.b = u.b",
        "SELECT x.a FROM x LEFT JOIN (SELECT DISTINCT b FROM y) AS u ON x.b = u.b",
        "SELECT x.a FROM x LEFT JOIN (SELECT b, c FROM y GROUP BY b, c) AS u ON x.b = u.b",
        "SELECT x.a FROM x LEFT JOIN (SELECT b FROM y UNION ALL SELECT b FROM z) AS u ON x.b = u.b",
        "SELECT x.a FROM x LEFT JOIN (SELECT b FROM y UNION SELECT b FROM z) AS u ON x.b = u.b",
        "SELECT x.a FROM x LEFT JOIN (SELECT MAX(b) AS b FROM y) AS u ON x.b = u.b",
        "SELECT x.a FROM x CROSS JOIN (SELECT b FROM y ORDER BY b, c LIMIT 1) AS u",
        "SELECT x.a FROM x CROSS JOIN (SELECT MAX(b) AS b FROM y) AS u",
        "SELECT x.a FROM x LEFT JOIN (SELECT b FROM y ORDER BY b, c LIMIT 1) AS u ON TRUE",
        "SELECT x.a FROM x LEFT JOIN (SELECT b FROM y ORDER BY b, c LIMIT 1) AS u ON x.b = u.b",
        "SELECT s.n FROM (SELECT COUNT(*) AS n, SUM(a) AS t FROM x) AS s",
        "SELECT s.k FROM (SELECT 1 AS k, SUM(a) AS t FROM x) AS s",
        "SELECT 1 AS one FROM (SELECT SUM(a) AS t FROM x) AS s",
        "SELECT s.k FROM (SELECT a AS k, SUM(b) AS t FROM x GROUP BY a) AS s",
        "SELECT DISTINCT s.k FROM (SELECT a AS k, b FROM x) AS s",
        "SELECT s.k FROM (SELECT DISTINCT a AS k, b FROM x) AS s",
        "SELECT s.k FROM (SELECT a AS k, b FROM x UNION SELECT b, c FROM y) AS s",
        "SELECT s.k FROM (SELECT a AS k, b FROM x EXCEPT SELECT b, c FROM y) AS s",
        "SELECT s.k FROM (SELECT a AS k, b FROM x INTERSECT SELECT b, c FROM y) AS s",
        "SELECT s.k FROM (SELECT a AS k, b FROM x ORDER BY b, a LIMIT 1) AS s",
    ]
    return out


def windows():
    """Window functions in derived tables / CTEs under filters and joins: the window guards of pushdown_predicates and
    merge_subqueries, and projection pruning around them."""
    out = []
    ws = ["ROW_NUMBER() OVER (PARTITION BY a ORDER BY b)", "COUNT(*) OVER (PARTITION BY a)", "SUM(b) OVER (PARTITION BY a ORDER BY b)", "MAX(b) OVER ()"]
    for w in ws:
        inner = f"SELECT a, b, {w} AS w FROM x"
        out.append(inner)
        out.append(f"SELECT q.a, q.w FROM ({inner}) AS q WHERE q.a > 0")
        out.append(f"SELECT q.a FROM ({inner}) AS q WHERE q.w = 1")
        out.append(f"SELECT q.a, q.b FROM ({inner}) AS q WHERE q.b > 0 AND q.w > 0")
        out.append(f"WITH t AS ({inner}) SELECT t.a, y.c FROM t JOIN y ON t.b = y.b WHERE t.a = 1")
        out.append(f"SELECT q.a FROM ({inner}) AS q")
        out.append(f"SELECT y.c, q.w FROM y LEFT JOIN ({inner}) AS q ON y.b = q.b")
        out.append(f"SELECT q.a, q.w FROM (SELECT a, b, {w} AS w FROM x WHERE b > 0) AS q WHERE q.a = 1")
    out.append("SELECT a, b FROM x QUALIFY ROW_NUMBER() OVER (PARTITION BY a ORDER BY b) = 1")
    out.append("SELECT q.a FROM (SELECT a, b FROM x QUALIFY ROW_NUMBER() OVER (PARTITION BY a ORDER BY b) = 1) AS q WHERE q.b > 0")
    out.append("SELECT DISTINCT ON (a) a, b FROM x ORDER BY a, b DESC")
    return out


def programs(tier: str, seed: int):
    rnd = random.Random(seed)
    fams = [("window", windows()), ("multi_join", multi_join()), ("join", joins()), ("derived", derived()), ("subquery", subqueries()), ("aggregate", aggregates()), ("setop", setops()), ("order", ordering())]
    out = []
    for name, progs in fams:
        # the whole family in both tiers (a seeded change was missed when quick sampled it); thorough raises K instead
        out += [(name, p) for p in progs]
    return out
