"""Filter-free query family for C17 (no WHERE / ON / GROUP BY / DISTINCT / ORDER BY / LIMIT: lineage deliberately ignores
control dependence, so only data flow through projections, derived tables, CTEs, UNION ALL, cross joins, scalar aggregate
sub-queries, stars and column-list aliases is exercised).  Output names are unique per query."""
from __future__ import annotations

import itertools
import random

EXPRS_X = ["a", "b", "a + b", "a * 2", "b - 1", "COALESCE(a, b)", "CASE WHEN a > 0 THEN b ELSE 0 END", "CASE WHEN a > b THEN a ELSE b END", "NULLIF(a, b)", "-a", "1", "a + 0 * b"]
EXPRS_Y = ["b", "c", "b + c", "COALESCE(c, 0)", "CASE WHEN c > 0 THEN b ELSE c END"]


def base():
    out = []
    for e1, e2 in itertools.combinations(EXPRS_X, 2):
        out.append(f"SELECT {e1} AS p, {e2} AS q FROM x")
    out.append("SELECT * FROM x")
    out.append("SELECT x.* FROM x")
    out.append("SELECT SUM(a) AS p, MAX(b) AS q, COUNT(*) AS n FROM x")
    out.append("SELECT SUM(a + b) AS p, MIN(a) AS q FROM x")
    return out


def nested(rnd: random.Random, n: int):
    out = []
    for _ in range(n):
        e1, e2 = rnd.sample(EXPRS_X, 2)
        inner = f"SELECT {e1} AS u, {e2} AS v FROM x"
        f1, f2 = rnd.sample(["u", "v", "u + v", "u * 2", "COALESCE(u, v)", "CASE WHEN u > 0 THEN v ELSE 0 END", "v - u"], 2)
        shape = rnd.randrange(8)
        if shape == 0:
            out.append(f"SELECT {f1} AS p, {f2} AS q FROM ({inner}) AS t")
        elif shape == 1:
            out.append(f"WITH t AS ({inner}) SELECT {f1} AS p, {f2} AS q FROM t")
        elif shape == 2:
            out.append(f"WITH t AS ({inner}) SELECT t1.u AS p, t2.v AS q FROM t AS t1 CROSS JOIN t AS t2")
        elif shape == 3:
            g1 = rnd.choice(["p", "q", "p + q", "COALESCE(q, p)"])
            out.append(f"SELECT {g1} AS r FROM (SELECT {f1} AS p, {f2} AS q FROM ({inner}) AS t) AS s")
        elif shape == 4:
            ey = rnd.choice(EXPRS_Y)
            out.append(f"SELECT w.p AS r FROM (SELECT {f1} AS p FROM ({inner}) AS t UNION ALL SELECT {ey} AS p FROM y) AS w")
        elif shape == 5:
            ey = rnd.choice(EXPRS_Y)
            out.append(f"SELECT t.u AS p, y2.k AS q FROM ({inner}) AS t CROSS JOIN (SELECT {ey} AS k FROM y) AS y2")
        elif shape == 6:
            agg = rnd.choice(["MAX(c)", "SUM(b + c)", "MIN(b)", "COUNT(c)"])
            out.append(f"SELECT {f1} AS p, (SELECT {agg} FROM y) AS m FROM ({inner}) AS t")
        else:
            out.append(f"SELECT t.k AS p, t.l AS q FROM ({inner}) AS t(k, l)")
    return out


def shared():
    """Sharing patterns: one inner column (of a UNION ALL, a CTE referenced twice, a nested derived table) feeds SEVERAL output
    columns of the same query -- lineage(None, ...) shares one cache across output columns."""
    out = []
    sources = [
        ("(SELECT a, b FROM x UNION ALL SELECT b, c FROM y) AS u", "u", ["a", "b"]),
        ("(SELECT a AS m, b AS n FROM x UNION ALL SELECT b, c FROM y UNION ALL SELECT c, b FROM z) AS u", "u", ["m", "n"]),
        ("(SELECT a + b AS m, a AS n FROM x) AS u", "u", ["m", "n"]),
        ("(SELECT t.a AS m, t.b AS n FROM (SELECT a, b FROM x UNION ALL SELECT b, c FROM y) AS t) AS u", "u", ["m", "n"]),
    ]
    for src, al, (c1, c2) in sources:
        out.append(f"SELECT {al}.{c1} AS p, {al}.{c1} + 1 AS q FROM {src}")
        out.append(f"SELECT {al}.{c1} AS p, {al}.{c1} + {al}.{c2} AS q, {al}.{c2} AS r FROM {src}")
        out.append(f"SELECT {al}.{c2} AS p, COALESCE({al}.{c1}, {al}.{c2}) AS q FROM {src}")
        out.append(f"SELECT {al}.{c1} AS p, v.{c1} AS q, v.{c2} + {al}.{c2} AS r FROM {src} CROSS JOIN {src.replace(' AS u', ' AS v')}")
    ctes = [
        ("u(m, n) AS (SELECT a, b FROM x UNION ALL SELECT b, c FROM y)", ["m", "n"]),
        ("u AS (SELECT a AS m, b AS n FROM x)", ["m", "n"]),
        ("t AS (SELECT a, b FROM x), u AS (SELECT a AS m, b AS n FROM t UNION ALL SELECT b, a FROM t)", ["m", "n"]),
    ]
    for cte, (c1, c2) in ctes:
        out.append(f"WITH {cte} SELECT u1.{c1} AS p, u2.{c1} + u2.{c2} AS q FROM u AS u1 CROSS JOIN u AS u2")
        out.append(f"WITH {cte} SELECT u1.{c1} AS p, u2.{c1} AS q, u1.{c2} AS r, u2.{c2} AS s FROM u AS u1 CROSS JOIN u AS u2")
        out.append(f"WITH {cte} SELECT u.{c1} AS p, u.{c1} AS q, u.{c2} + u.{c1} AS r FROM u")
        out.append(f"WITH {cte} SELECT w.p AS p, w.p + w.q AS r FROM (SELECT u.{c1} AS p, u.{c2} AS q FROM u) AS w")
    return out


def same_alias():
    """Scoping patterns: the SAME alias (and the same column name) denotes DIFFERENT base tables in sibling or nested scopes --
    aliases are only unique within a scope, the lineage of one must not be taken for the other's."""
    out = []
    for l, r in [("x", "y"), ("y", "z"), ("z", "x")]:
        out.append(f"SELECT o.b + r.b AS p FROM (SELECT t.b FROM {l} AS t) AS o CROSS JOIN (SELECT t.b FROM {r} AS t) AS r")
        out.append(f"SELECT o.b AS p, r.b AS q FROM (SELECT t.b FROM {l} AS t) AS o CROSS JOIN (SELECT t.b FROM {r} AS t) AS r")
        out.append(f"WITH o AS (SELECT t.b FROM {l} AS t), r AS (SELECT t.b FROM {r} AS t) SELECT o.b - r.b AS p FROM o CROSS JOIN r")
        out.append(f"SELECT t.b + (SELECT MAX(t.b) FROM {r} AS t) AS p FROM {l} AS t")
        out.append(f"SELECT u.b AS p FROM (SELECT t.b FROM {l} AS t UNION ALL SELECT t.b FROM {r} AS t) AS u")
        out.append(f"SELECT o.k AS p, r.k AS q FROM (SELECT t.b AS k FROM {l} AS t) AS o CROSS JOIN (SELECT t.b + 1 AS k FROM {r} AS t) AS r")
    return out


def correlated():
    """A scalar sub-query whose SELECT list uses a column of the OUTER query (data flow from the outer source into the output)."""
    return [
        "SELECT (SELECT MAX(x.a + y.c) FROM y) AS p FROM x",
        "SELECT x.b AS p, (SELECT MAX(y.c) + x.a FROM y) AS q FROM x",
        "SELECT (SELECT MAX(y.c) + s.k FROM y) AS p FROM (SELECT a AS k FROM x) AS s",
        "WITH s AS (SELECT a AS k, b FROM x) SELECT s.b AS p, (SELECT SUM(y.b + s.k) FROM y) AS q FROM s",
        "SELECT x.a AS p, (SELECT MAX(y.c) FROM y) + x.b AS q FROM x",
    ]


def fixed():
    return [
        "WITH t AS (SELECT a, b FROM x), s AS (SELECT a AS a2, b AS b2 FROM t) SELECT s.a2 AS p, t.b AS q FROM s CROSS JOIN t",
        "WITH t AS (SELECT a, b FROM x) SELECT u.a AS p FROM (SELECT a FROM t UNION ALL SELECT b FROM t) AS u",
        "SELECT t.* FROM (SELECT a AS p, b AS q FROM x) AS t",
        "SELECT x.a AS p, y.c AS q, z.c AS r FROM x CROSS JOIN y CROSS JOIN z",
        "SELECT y.c AS p, z.c AS q FROM y CROSS JOIN z",
        "WITH t AS (SELECT b, c FROM y UNION ALL SELECT b, c FROM z) SELECT t.b AS p, t.c AS q FROM t",
        "SELECT a AS p, (SELECT MAX(c) FROM y) + (SELECT MIN(c) FROM z) AS q FROM x",
        "WITH t AS (SELECT a AS k, b AS l FROM x) SELECT t1.k AS p, t2.k AS q, t1.l + t2.l AS r FROM t AS t1 CROSS JOIN t AS t2",
        "SELECT q2.p AS p FROM (SELECT q1.p AS p FROM (SELECT a + b AS p FROM x) AS q1) AS q2",
        "SELECT s.m AS p FROM (SELECT MAX(a) AS m, MIN(b) AS n FROM x) AS s",
    ]


def programs(tier: str, seed: int):
    rnd = random.Random(seed)
    out = [("base", q) for q in base()] + [("fixed", q) for q in fixed()] + [("shared", q) for q in shared()] + [("same_alias", q) for q in same_alias()] + [("correlated", q) for q in correlated()]
    out += [("nested", q) for q in nested(rnd, 150 if tier == "quick" else 1500)]
    seen, res = set(), []
    for f, q in out:
        if q not in seen:
            seen.add(q)
            res.append((f, q))
    return res
