"""Bridge to the real engines (DuckDB, SQLite): replay oracles and validation of the evaluator. Concrete data only."""
from __future__ import annotations

import sqlite3
from collections import Counter


def _ddl(schema, kind_map):
    out = []
    for t, cols in schema.items():
        out.append(f"CREATE TABLE {t} ({', '.join(c + ' ' + kind_map[k] for c, k in cols)})")
    return out


def run_duckdb(sql: str, data: dict, schema: dict):
    import duckdb

    con = duckdb.connect(":memory:")
    try:
        for stmt in _ddl(schema, {"int": "BIGINT", "bool": "BOOLEAN"}):
            con.execute(stmt)
        for t, rows in data.items():
            for r in rows:
                con.execute(f"INSERT INTO {t} VALUES ({', '.join('?' for _ in r)})", list(r))
        cur = con.execute(sql)
        names = [d[0] for d in cur.description]
        rows = [tuple(r) for r in cur.fetchall()]
        return {"ok": True, "names": names, "rows": rows}
    except Exception as e:
        return {"ok": False, "error": type(e).__name__ + ": " + str(e)[:300]}
    finally:
        con.close()


def run_sqlite(sql: str, data: dict, schema: dict):
    con = sqlite3.connect(":memory:")
    try:
        for stmt in _ddl(schema, {"int": "INTEGER", "bool": "INTEGER"}):
            con.execute(stmt)
        for t, rows in data.items():
            for r in rows:
                con.execute(f"INSERT INTO {t} VALUES ({', '.join('?' for _ in r)})", list(r))
        cur = con.execute(sql)
        names = [d[0] for d in cur.description]
        rows = [tuple(r) for r in cur.fetchall()]
        return {"ok": True, "names": names, "rows": rows}
    except Exception as e:
        return {"ok": False, "error": type(e).__name__ + ": " + str(e)[:300]}
    finally:
        con.close()


def norm_row(r):
    return tuple(int(v) if isinstance(v, bool) else v for v in r)


def same_rows(a, b, ordered: bool) -> bool:
    a = [norm_row(r) for r in a]
    b = [norm_row(r) for r in b]
    if ordered:
        return a == b
    return Counter(a) == Counter(b)
