"""Query family for C02 (common fragment of SQLite and DuckDB over x(a,b) y(b,c) z(b,c), integers only)."""
from __future__ import annotations

import itertools
import random

from engines.sqlsmt import gen_rel

ARITH = ["a - (b - 1)", "a - b - 1", "(a + b) * 2", "a + b * 2", "-(a + b)", "a - -b", "-a - b", "(a - b) - (b - a)", "a * (b + 1) - 1", "a - (b + 1) * 2",
         "-(-a)", "-(a * b)", "(a + 1) * (b - 1)", "a * b + a * b", "2 - (a - (b - 1))"]
BOOLS = ["NOT a > b", "NOT (a > b AND b > 0)", "NOT a > b AND b > 0", "(a > 0 OR b > 0) AND a < b", "a > 0 OR b > 0 AND a < b", "NOT (a > 0 OR b > 0)",
         "a BETWEEN 0 AND b OR b IS NULL", "NOT a BETWEEN 0 AND 1", "a IN (1, 2) AND NOT b IN (0, 1)", "a NOT IN (1, b)", "NOT (a IS NULL) AND b IS NOT NULL",
         "(a = 1) IS NULL", "a = 1 OR (b = 1 AND (a = 2 OR b = 2))", "NOT NOT a > 0", "a > 0 AND (b > 0 OR a > b) AND NOT b = 2",
         "COALESCE(a, b) > 0 AND NULLIF(a, b) IS NULL", "CASE WHEN a > b THEN a ELSE b END > 0", "a - 1 > b + 1", "-a < b - 1", "NOT (a - b) > 0"]
ORDERS = ["a", "a DESC", "a NULLS FIRST", "a NULLS LAST", "a DESC NULLS FIRST", "a DESC NULLS LAST", "a, b DESC", "a DESC, b", "b NULLS LAST, a DESC NULLS FIRST",
          "a + b", "a + b DESC NULLS FIRST", "-a"]


def expressions():
    out = []
    for e in ARITH:
        out.append(f"SELECT {e} AS v FROM x")
        out.append(f"SELECT a FROM x WHERE {e} > 0")
    for b in BOOLS:
        out.append(f"SELECT a, b FROM x WHERE {b}")
        out.append(f"SELECT CASE WHEN {b} THEN 1 ELSE 0 END AS v FROM x")
    for f in ["COALESCE(a, b, 0)", "NULLIF(a, b)", "CASE WHEN a IS NULL THEN b ELSE a END", "CASE a WHEN 1 THEN b WHEN 2 THEN 0 END", "ABS(a - b)"]:
        out.append(f"SELECT {f} AS v FROM x")
    return out


def ordering():
    out = []
    for o in ORDERS:
        out.append(f"SELECT a, b FROM x ORDER BY {o}")
        out.append(f"SELECT a, b FROM x ORDER BY {o} LIMIT 1")
        out.append(f"SELECT a, b FROM x ORDER BY {o} LIMIT 1 OFFSET 1")
        out.append(f"SELECT q.a FROM (SELECT a, b FROM x ORDER BY {o} LIMIT 1) AS q")
        # OFFSET without LIMIT (DuckDB accepts it; SQLite needs LIMIT -1 OFFSET n)
        out.append(f"SELECT a, b FROM x ORDER BY {o} OFFSET 1")
        out.append(f"SELECT a, SUM(b) AS s FROM x GROUP BY a ORDER BY {o.replace('b', 's') if 'b' in o else o}")
    out.append("SELECT q.a FROM (SELECT a, b FROM x ORDER BY a NULLS FIRST, b NULLS FIRST OFFSET 1) AS q WHERE q.b > 0")
    out.append("SELECT a FROM x UNION ALL SELECT b FROM y ORDER BY a NULLS LAST OFFSET 1")
    return out


def sqlite_only():
    return ["SELECT IFNULL(a, b) AS v FROM x", "SELECT IIF(a > b, a, b) AS v FROM x", "SELECT a FROM x WHERE IFNULL(b, 0) = 0",
            "SELECT IIF(a IS NULL, 0, a) AS v FROM x ORDER BY v", "SELECT a FROM x WHERE a IS NOT b", "SELECT a FROM x WHERE a IS b"]


def duckdb_only():
    return ["SELECT x.a FROM x SEMI JOIN y ON x.b = y.b", "SELECT x.a FROM x ANTI JOIN y ON x.b = y.b", "SELECT x.a FROM x SEMI JOIN y ON x.b = y.b AND y.c > 0",
            "SELECT x.a FROM x ANTI JOIN y ON x.b = y.b WHERE x.a > 0", "SELECT a FROM x WHERE a IS DISTINCT FROM b", "SELECT a FROM x WHERE a IS NOT DISTINCT FROM b",
            "SELECT IF(a > b, a, b) AS v FROM x", "SELECT a FROM x INTERSECT ALL SELECT b FROM y", "SELECT a FROM x EXCEPT ALL SELECT b FROM y",
            # rewrites that go through window functions on the way to SQLite
            "SELECT a, b FROM x QUALIFY ROW_NUMBER() OVER (PARTITION BY a ORDER BY b) = 1",
            "SELECT a, b FROM x QUALIFY ROW_NUMBER() OVER (PARTITION BY a ORDER BY b DESC NULLS FIRST) = 1",
            "SELECT a, b FROM x QUALIFY ROW_NUMBER() OVER (PARTITION BY a ORDER BY b) = 1 AND COUNT(*) OVER (PARTITION BY a) > 1",
            "SELECT a, b FROM x QUALIFY COUNT(*) OVER (PARTITION BY a) > 1 OR SUM(b) OVER (PARTITION BY a) = 2",
            "SELECT a, b, ROW_NUMBER() OVER (PARTITION BY a ORDER BY b) AS rn FROM x QUALIFY rn = 1",
            "SELECT x.a, y.c FROM x LEFT JOIN y ON x.b = y.b QUALIFY SUM(x.b) OVER (PARTITION BY x.a) = 2 OR ROW_NUMBER() OVER (PARTITION BY x.a ORDER BY x.b DESC, y.c) = 2",
            "SELECT DISTINCT ON (a) a, b FROM x ORDER BY a, b DESC", "SELECT DISTINCT ON (a) a, b FROM x ORDER BY a NULLS FIRST, b NULLS FIRST",
            "SELECT DISTINCT ON (a, b) a, b FROM x ORDER BY a, b", "SELECT q.a FROM (SELECT DISTINCT ON (a) a, b FROM x ORDER BY a, b) AS q WHERE q.b > 0"]


def windows():
    out = []
    for w in ["ROW_NUMBER() OVER (PARTITION BY a ORDER BY b)", "ROW_NUMBER() OVER (ORDER BY a DESC, b)", "COUNT(*) OVER (PARTITION BY a)", "SUM(b) OVER (PARTITION BY a)",
              "SUM(b) OVER (PARTITION BY a ORDER BY b)", "MAX(b) OVER ()", "MIN(b) OVER (PARTITION BY a ORDER BY b DESC NULLS LAST)", "COUNT(b) OVER (ORDER BY a NULLS FIRST, b NULLS LAST)"]:
        out.append(f"SELECT a, b, {w} AS w FROM x")
        out.append(f"SELECT q.a FROM (SELECT a, b, {w} AS w FROM x) AS q WHERE q.w = 1")
    return out


def programs(tier: str, seed: int):
    out = [("expr", q) for q in expressions()] + [("order", q) for q in ordering()] + [("window", q) for q in windows()]
    rel = [(f, q) for f, q in gen_rel.programs(tier, seed)]
    if tier == "quick":
        rnd = random.Random(seed)
        rnd.shuffle(rel)
        rel = rel[:220]
    out += rel
    return out, [("sqlite-only", q) for q in sqlite_only()], [("duckdb-only", q) for q in duckdb_only()]
