"""Semantics of a SQL fragment over sqlglot ASTs, written against the algebra of alg.py (DESIGN §3, E2).

Scalars are (kind, is_null, value); relations are lists of (present, row).  Data-dependent control flow is always
`A.If`, never a Python branch, so with Z3Alg one query denotes one formula over the symbolic database.  Name resolution
for unqualified columns follows SQL scoping and is implemented here independently of sqlglot's `qualify`.

Anything outside the fragment raises Unsupported(reason): the program is skipped and counted.
"""
from __future__ import annotations

from sqlglot import exp


class Unsupported(Exception):
    pass


class V:
    """scalar: k in {'int','bool','null','arr'}; n = is-null term; v = value term (arr: list of (present, V))."""

    __slots__ = ("k", "n", "v")

    def __init__(self, k, n, v):
        self.k, self.n, self.v = k, n, v

    def __repr__(self):
        return f"V({self.k},{self.n},{self.v})"


class Rel:
    """cols: list of (qualifier|None, name); rows: list of (present, [V]); hidden: indexes not shown by `*` nor found
    by unqualified look-up (the two sides of a USING column); order: optional [(keys per row)] for sequence comparison."""

    def __init__(self, cols, rows, hidden=None):
        self.cols = list(cols)
        self.rows = list(rows)
        self.hidden = set(hidden or ())
        self.order = None  # list (per row) of list of (V, desc, nulls_first)


class Env:
    def __init__(self, sem, outer=None):
        self.sem = sem
        self.outer = outer
        self.ctes = {}
        self.cols = None      # list of (qual, name)
        self.vals = None      # list of V
        self.hidden = set()
        self.group = None     # list of (member_term, Env) when evaluating inside a grouped select
        self.aliases = {}     # output aliases visible to ORDER BY / GROUP BY / HAVING: name -> V or callable
        self.lambda_vars = {}
        self.win = None       # list of (present, row Env): the rows window functions of this select range over
        self.win_self = None  # index of this row in self.win

    def child(self):
        e = Env(self.sem, outer=self)
        return e

    def find_cte(self, name):
        e = self
        while e is not None:
            if name in e.ctes:
                return e.ctes[name]
            e = e.outer
        return None

    def lookup(self, qual, name, prefer_alias=False):
        e = self
        while e is not None:
            if name in e.lambda_vars and not qual:
                return e.lambda_vars[name]
            if prefer_alias and not qual and name in e.aliases:
                return e.aliases[name]
            if e.cols is not None:
                hits = []
                for i, (q, n) in enumerate(e.cols):
                    if n != name:
                        continue
                    if qual:
                        if q == qual:
                            hits.append(i)
                    elif i not in e.hidden:
                        hits.append(i)
                if len(hits) == 1:
                    if e.vals is None:
                        raise Unsupported("column outside aggregate in aggregate-only select")
                    return e.vals[hits[0]]
                if len(hits) > 1:
                    if self.sem.dup_first and len({e.cols[h][0] for h in hits}) == 1 and e.vals is not None:
                        # SQLite resolves a duplicated column name of ONE derived table to its first occurrence
                        return e.vals[hits[0]]
                    raise Unsupported(f"ambiguous column {qual}.{name}")
            if not prefer_alias and not qual and name in e.aliases:
                return e.aliases[name]
            e = e.outer
        raise Unsupported(f"unknown column {qual}.{name}")


def _norm_ident(x) -> str:
    if x is None:
        return ""
    if isinstance(x, exp.Identifier):
        return x.name if x.quoted else x.name.lower()
    if isinstance(x, str):
        return x.lower()
    return _norm_ident(x.this) if hasattr(x, "this") else str(x).lower()


class _OrderOnly:
    """Minimal stand-in for a query node that only carries an ORDER BY (used to evaluate sort keys)."""

    def __init__(self, order):
        self.args = {"order": order}


class Sem:
    def __init__(self, A, tables: dict, schema: dict, nulls_last_default: bool = True, bool_is_int: bool = False,
                 null_ordering: str | None = None, dup_first: bool = False):
        """tables: name -> Rel-like list of (present, {col: V}); schema: name -> [(col, kind)]"""
        self.A = A
        self.tables = tables
        self.schema = schema
        self.nulls_last_default = nulls_last_default
        # None -> use nulls_last_default; "small": NULLs sort as the smallest value (first ASC, last DESC); "large": the opposite
        self.null_ordering = null_ordering
        self.bool_is_int = bool_is_int
        self.dup_first = dup_first
        self.assumptions = []   # terms assumed true (tie-free ORDER BY keys, scalar sub-queries return <= 1 row)
        self.features = set()

    # ------------------------------------------------------------------ scalar helpers
    def null(self):
        return V("null", self.A.T, None)

    def int_(self, v, n=None):
        return V("int", self.A.F if n is None else n, v)

    def bool_(self, v, n=None):
        return V("bool", self.A.F if n is None else n, v)

    def as_int(self, x: V) -> V:
        if x.k == "int":
            return x
        if x.k == "null":
            return V("int", self.A.T, self.A.Int(0))
        if x.k == "bool" and self.bool_is_int:
            return V("int", x.n, self.A.If(x.v, self.A.Int(1), self.A.Int(0)))
        raise Unsupported(f"{x.k} used as int")

    def as_bool(self, x: V) -> V:
        if x.k == "bool":
            return x
        if x.k == "null":
            return V("bool", self.A.T, self.A.F)
        if x.k == "int" and self.bool_is_int:
            return V("bool", x.n, self.A.Not(self.A.Eq(x.v, self.A.Int(0))))
        raise Unsupported(f"{x.k} used as bool")

    def unify(self, a: V, b: V):
        if a.k == b.k:
            if a.k == "null":
                return self.as_bool(a), self.as_bool(b)
            return a, b
        if a.k == "null":
            return (self.as_int(a) if b.k == "int" else self.as_bool(a)), b
        if b.k == "null":
            return a, (self.as_int(b) if a.k == "int" else self.as_bool(b))
        if self.bool_is_int:
            return self.as_int(a), self.as_int(b)
        raise Unsupported(f"mixed kinds {a.k}/{b.k}")

    def is_true(self, x: V):
        b = self.as_bool(x)
        return self.A.And(self.A.Not(b.n), b.v)

    def is_false(self, x: V):
        b = self.as_bool(x)
        return self.A.And(self.A.Not(b.n), self.A.Not(b.v))

    def same(self, a: V, b: V):
        """null-safe equality (IS NOT DISTINCT FROM): used for bags, DISTINCT, GROUP BY keys."""
        A = self.A
        if a.k == "arr" or b.k == "arr":
            raise Unsupported("array comparison")
        a, b = self.unify(a, b)
        return A.Or(A.And(a.n, b.n), A.And(A.Not(a.n), A.Not(b.n), A.Eq(a.v, b.v)))

    def and3(self, xs):
        A = self.A
        bs = [self.as_bool(x) for x in xs]
        anyf = A.Or(*[A.And(A.Not(b.n), A.Not(b.v)) for b in bs])
        allt = A.And(*[A.And(A.Not(b.n), b.v) for b in bs])
        return V("bool", A.And(A.Not(anyf), A.Not(allt)), allt)

    def or3(self, xs):
        A = self.A
        bs = [self.as_bool(x) for x in xs]
        anyt = A.Or(*[A.And(A.Not(b.n), b.v) for b in bs])
        allf = A.And(*[A.And(A.Not(b.n), A.Not(b.v)) for b in bs])
        return V("bool", A.And(A.Not(anyt), A.Not(allf)), anyt)

    def not3(self, x):
        b = self.as_bool(x)
        return V("bool", b.n, self.A.Not(b.v))

    def cmp(self, op, a: V, b: V) -> V:
        A = self.A
        a, b = self.unify(a, b)
        if a.k == "bool":
            if op == "eq":
                v = A.Eq(a.v, b.v)
            elif op == "ne":
                v = A.Not(A.Eq(a.v, b.v))
            else:
                # FALSE < TRUE
                ai, bi = A.If(a.v, A.Int(1), A.Int(0)), A.If(b.v, A.Int(1), A.Int(0))
                v = self._cmp_int(op, ai, bi)
        else:
            v = self._cmp_int(op, a.v, b.v)
        return V("bool", A.Or(a.n, b.n), v)

    def _cmp_int(self, op, x, y):
        A = self.A
        if op == "eq":
            return A.Eq(x, y)
        if op == "ne":
            return A.Not(A.Eq(x, y))
        if op == "lt":
            return x < y
        if op == "le":
            return x <= y
        if op == "gt":
            return x > y
        if op == "ge":
            return x >= y
        raise Unsupported(op)

    def ite(self, c, a: V, b: V) -> V:
        """value-level If on two scalars (kinds unified)."""
        A = self.A
        if a.k == "arr" or b.k == "arr":
            raise Unsupported("conditional over arrays")
        if a.k == "null" and b.k == "null":
            return a
        a, b = self.unify(a, b)
        return V(a.k, A.If(c, a.n, b.n), A.If(c, a.v, b.v))

    # ------------------------------------------------------------------ scalar evaluation
    _CMP = {exp.EQ: "eq", exp.NEQ: "ne", exp.LT: "lt", exp.LTE: "le", exp.GT: "gt", exp.GTE: "ge"}

    def ev(self, e, env: Env) -> V:
        A = self.A
        t = type(e)
        if t is exp.Paren:
            return self.ev(e.this, env)
        if t is exp.Alias:
            return self.ev(e.this, env)
        if t is exp.Column:
            if isinstance(e.this, exp.Star):
                raise Unsupported("star in expression")
            if e.args.get("db") or e.args.get("catalog"):
                raise Unsupported("db-qualified column")
            return env.lookup(_norm_ident(e.args.get("table")), _norm_ident(e.this))
        if t is exp.Identifier:
            return env.lookup("", _norm_ident(e))
        if t is exp.Boolean:
            return self.bool_(A.Bool(bool(e.this)))
        if t is exp.Null:
            return self.null()
        if t is exp.Literal:
            if e.is_string:
                raise Unsupported("string literal")
            try:
                return self.int_(A.Int(int(e.this)))
            except ValueError:
                raise Unsupported("non-integer literal")
        if t is exp.Neg:
            x = self.as_int(self.ev(e.this, env))
            return V("int", x.n, -x.v)
        if t in (exp.Add, exp.Sub, exp.Mul):
            a = self.as_int(self.ev(e.left, env))
            b = self.as_int(self.ev(e.right, env))
            v = a.v + b.v if t is exp.Add else (a.v - b.v if t is exp.Sub else a.v * b.v)
            return V("int", A.Or(a.n, b.n), v)
        if t in self._CMP:
            right = e.right
            if isinstance(right, (exp.Any, exp.All)):
                return self.quantified(self._CMP[t], self.ev(e.left, env), right, env)
            return self.cmp(self._CMP[t], self.ev(e.left, env), self.ev(right, env))
        if t is exp.NullSafeEQ:
            return self.bool_(self.same(self.ev(e.left, env), self.ev(e.right, env)))
        if t is exp.NullSafeNEQ:
            return self.bool_(A.Not(self.same(self.ev(e.left, env), self.ev(e.right, env))))
        if t is exp.Is:
            left = self.ev(e.left, env)
            r = e.right
            neg = False
            if isinstance(r, exp.Not):
                r, neg = r.this, True
            if isinstance(r, exp.Null):
                res = left.n
            elif isinstance(r, exp.Boolean):
                b = self.as_bool(left)
                res = A.And(A.Not(b.n), A.Eq(b.v, A.Bool(bool(r.this))))
            else:
                raise Unsupported("IS <expr>")
            return self.bool_(A.Not(res) if neg else res)
        if t is exp.Not:
            return self.not3(self.ev(e.this, env))
        if t is exp.And:
            return self.and3([self.ev(x, env) for x in self._flat(e, exp.And)])
        if t is exp.Or:
            return self.or3([self.ev(x, env) for x in self._flat(e, exp.Or)])
        if t is exp.Between:
            x = self.ev(e.this, env)
            lo, hi = self.ev(e.args["low"], env), self.ev(e.args["high"], env)
            if e.args.get("symmetric"):
                raise Unsupported("BETWEEN SYMMETRIC")
            return self.and3([self.cmp("ge", x, lo), self.cmp("le", x, hi)])
        if t is exp.In:
            x = self.ev(e.this, env)
            if e.args.get("query") is not None:
                q = e.args["query"]
                rel = self.evq(q.this if isinstance(q, exp.Subquery) else q, env)
                return self.in_rel(x, rel)
            if e.args.get("unnest") is not None or e.args.get("field") is not None:
                raise Unsupported("IN UNNEST")
            if not e.expressions:
                raise Unsupported("empty IN")
            if len(e.expressions) == 1 and isinstance(e.expressions[0], (exp.Subquery, exp.Select)):
                q = e.expressions[0]
                return self.in_rel(x, self.evq(q.this if isinstance(q, exp.Subquery) else q, env))
            return self.or3([self.cmp("eq", x, self.ev(y, env)) for y in e.expressions])
        if t is exp.Exists:
            q = e.this
            rel = self.evq(q.this if isinstance(q, exp.Subquery) else q, env)
            return self.bool_(A.Or(*[p for p, _ in rel.rows]))
        if t is exp.Subquery:
            return self.scalar_subquery(e.this, env)
        if t is exp.Select or isinstance(e, exp.SetOperation):
            return self.scalar_subquery(e, env)
        if t is exp.Coalesce:
            args = [e.this] + list(e.expressions)
            vals = [self.ev(a, env) for a in args]
            res = self.null()
            for v in reversed(vals):
                res = self.ite(A.Not(v.n), v, res) if v.k != "null" else res
            return res
        if t is exp.Nullif:
            a, b = self.ev(e.this, env), self.ev(e.expression, env)
            eq = self.is_true(self.cmp("eq", a, b))
            return self.ite(eq, self.null(), a)
        if t is exp.If:
            c = self.is_true(self.ev(e.this, env))
            tv = self.ev(e.args["true"], env)
            fv = self.ev(e.args["false"], env) if e.args.get("false") is not None else self.null()
            return self.ite(c, tv, fv)
        if t is exp.Case:
            default = self.ev(e.args["default"], env) if e.args.get("default") is not None else self.null()
            base = self.ev(e.this, env) if e.args.get("this") is not None else None
            res = default
            for w in reversed(e.args.get("ifs") or []):
                cond = self.ev(w.this, env)
                c = self.is_true(self.cmp("eq", base, cond)) if base is not None else self.is_true(cond)
                res = self.ite(c, self.ev(w.args["true"], env), res)
            return res
        if t in (exp.Cast, exp.TryCast):
            x = self.ev(e.this, env)
            to = e.to.this
            DT = exp.DataType.Type
            if to in (DT.INT, DT.BIGINT, DT.SMALLINT, DT.TINYINT, DT.DECIMAL) and not e.to.expressions:
                if x.k == "bool":
                    return V("int", x.n, A.If(x.v, A.Int(1), A.Int(0)))
                return self.as_int(x)
            if to == DT.BOOLEAN:
                if x.k == "int":
                    return V("bool", x.n, A.Not(A.Eq(x.v, A.Int(0))))
                return self.as_bool(x)
            raise Unsupported(f"cast to {to}")
        if t is exp.Abs:
            x = self.as_int(self.ev(e.this, env))
            return V("int", x.n, A.If(x.v < A.Int(0), -x.v, x.v))
        if t is exp.Window:
            return self.window(e, env)
        if isinstance(e, exp.AggFunc):
            return self.aggregate(e, env)
        if t is exp.ArrayAny or t is exp.ArrayAll:
            return self.array_quant(e, env)
        if t is exp.Bracket or t is exp.Dot:
            raise Unsupported(t.__name__)
        raise Unsupported(t.__name__)

    @staticmethod
    def _flat(e, cls):
        out = []
        stack = [e]
        while stack:
            n = stack.pop()
            if type(n) is cls:
                stack.append(n.right)
                stack.append(n.left)
            elif type(n) is exp.Paren and type(n.this) is cls:
                stack.append(n.this)
            else:
                out.append(n)
        return out

    def in_rel(self, x: V, rel: Rel) -> V:
        A = self.A
        if len(rel.cols) != 1:
            raise Unsupported("IN sub-query with several columns")
        eqs = [(p, self.cmp("eq", x, r[0])) for p, r in rel.rows]
        anyt = A.Or(*[A.And(p, self.is_true(c)) for p, c in eqs])
        anyn = A.Or(*[A.And(p, c.n) for p, c in eqs])
        return V("bool", A.And(A.Not(anyt), anyn), anyt)

    def quantified(self, op, x: V, q, env) -> V:
        A = self.A
        sub = q.this
        if isinstance(sub, exp.Subquery):
            sub = sub.this
        if not isinstance(sub, exp.Query):
            raise Unsupported("ANY/ALL over non-query")
        rel = self.evq(sub, env)
        if len(rel.cols) != 1:
            raise Unsupported("quantified sub-query with several columns")
        cs = [(p, self.cmp(op, x, r[0])) for p, r in rel.rows]
        if isinstance(q, exp.Any):
            anyt = A.Or(*[A.And(p, self.is_true(c)) for p, c in cs])
            anyn = A.Or(*[A.And(p, c.n) for p, c in cs])
            return V("bool", A.And(A.Not(anyt), anyn), anyt)
        anyf = A.Or(*[A.And(p, self.is_false(c)) for p, c in cs])
        anyn = A.Or(*[A.And(p, c.n) for p, c in cs])
        return V("bool", A.And(A.Not(anyf), anyn), A.Not(anyf))

    def scalar_subquery(self, q, env) -> V:
        A = self.A
        rel = self.evq(q, env)
        if len(rel.cols) != 1:
            raise Unsupported("scalar sub-query with several columns")
        self.features.add("scalar-subquery")
        ps = [p for p, _ in rel.rows]
        # engines reject > 1 row: assumed away
        for i in range(len(ps)):
            for j in range(i + 1, len(ps)):
                self.assumptions.append(A.Not(A.And(ps[i], ps[j])))
        res = self.null()
        for p, r in reversed(rel.rows):
            res = self.ite(p, r[0], res)
        return res

    def array_quant(self, e, env) -> V:
        A = self.A
        arr = self.ev(e.this, env)
        lam = e.expression
        if arr.k != "arr" or not isinstance(lam, exp.Lambda) or len(lam.expressions) != 1:
            raise Unsupported("ARRAY_ANY/ALL shape")
        var = _norm_ident(lam.expressions[0])
        conds = []
        for p, el in arr.v:
            sub = env.child()
            sub.lambda_vars = {var: el}
            conds.append((p, self.ev(lam.this, sub)))
        if type(e) is exp.ArrayAll:
            # DuckDB has no rendering for ARRAY_ALL (the generated call is rejected by the engine): nothing to validate against
            raise Unsupported("ARRAY_ALL")
        # ARRAY_ANY means what the DuckDB generator renders it to:
        #   ARRAY_LENGTH(arr) = 0 OR ARRAY_LENGTH(LIST_FILTER(arr, x -> cond)) <> 0
        # i.e. NULL for a NULL array, TRUE for an empty one, otherwise "some element makes cond TRUE" (two-valued)
        anyt = A.Or(*[A.And(p, self.is_true(c)) for p, c in conds])
        empty = A.Not(A.Or(*[p for p, _ in conds]))
        return V("bool", arr.n, A.Or(empty, anyt))

    # ------------------------------------------------------------------ window functions
    def window(self, e, env: Env) -> V:
        """ROW_NUMBER / RANK-free subset: ROW_NUMBER(), COUNT, SUM, MIN, MAX OVER (PARTITION BY .. [ORDER BY ..]) with the default
        frame (whole partition without ORDER BY; rows up to the current one with ORDER BY, ties assumed away)."""
        A = self.A
        we = env
        while we is not None and we.win is None:
            we = we.outer
        if we is None:
            raise Unsupported("window function outside a select")
        if e.args.get("spec") is not None or e.args.get("alias") is not None or e.args.get("over") not in (None, "OVER"):
            raise Unsupported("window frame / named window")
        self.features.add("window")
        rows = we.win
        me = we.win_self
        parts = e.args.get("partition_by") or []
        order = e.args.get("order")
        pkeys = [[self.ev(k, renv) for k in parts] for _p, renv in rows]
        member = [A.And(p, A.And(*[self.same(a, b) for a, b in zip(pkeys[j], pkeys[me])])) for j, (p, _r) in enumerate(rows)]
        upto = member
        if order is not None:
            okeys = []
            for _p, renv in rows:
                ks = []
                for o in order.expressions:
                    v = self.ev(o.this, renv)
                    if v.k == "bool":
                        v = V("int", v.n, A.If(v.v, A.Int(1), A.Int(0)))
                    v = self.as_int(v)
                    desc = bool(o.args.get("desc"))
                    nf = o.args.get("nulls_first")
                    if nf is None:
                        nf = (not desc) if self.null_ordering == "small" else (desc if self.null_ordering == "large" else not self.nulls_last_default)
                    ks.append((v, desc, bool(nf)))
                okeys.append(ks)

            def before(a, b):
                res = A.F
                for (va, desc, nf), (vb, _d, _n) in reversed(list(zip(okeys[a], okeys[b]))):
                    both = A.And(A.Not(va.n), A.Not(vb.n))
                    lt = A.And(both, (va.v > vb.v) if desc else (va.v < vb.v))
                    null_lt = A.And(va.n, A.Not(vb.n)) if nf else A.And(A.Not(va.n), vb.n)
                    eq = A.Or(A.And(va.n, vb.n), A.And(both, A.Eq(va.v, vb.v)))
                    res = A.Or(lt, null_lt, A.And(eq, res))
                return res

            # ties inside a partition make ROW_NUMBER / running aggregates nondeterministic: assumed away
            for j in range(len(rows)):
                if j != me:
                    eq = A.And(*[A.Or(A.And(x[0].n, y[0].n), A.And(A.Not(x[0].n), A.Not(y[0].n), A.Eq(x[0].v, y[0].v)))
                                 for x, y in zip(okeys[j], okeys[me])])
                    self.assumptions.append(A.Not(A.And(member[j], member[me], eq)))
            upto = [member[j] if j == me else A.And(member[j], before(j, me)) for j in range(len(rows))]
        fn = e.this
        if isinstance(fn, exp.RowNumber):
            if order is None:
                raise Unsupported("ROW_NUMBER without ORDER BY")
            return self.int_(A.Sum([A.If(u, A.Int(1), A.Int(0)) for u in upto]))
        if isinstance(fn, (exp.Count, exp.Sum, exp.Min, exp.Max)):
            genv = Env(self, outer=env)
            genv.group = [(u, renv) for u, (_p, renv) in zip(upto, rows)]
            genv.win = None
            return self.aggregate(fn, genv)
        raise Unsupported("window function " + type(fn).__name__)

    # ------------------------------------------------------------------ aggregates
    def aggregate(self, e, env: Env) -> V:
        A = self.A
        g = None
        ee = env
        while ee is not None and g is None:
            g = ee.group
            ee = ee.outer
        if g is None:
            raise Unsupported("aggregate outside grouped select")
        t = type(e)
        arg = e.this
        distinct = False
        if isinstance(arg, exp.Distinct):
            distinct = True
            if len(arg.expressions) != 1:
                raise Unsupported("DISTINCT with several expressions")
            arg = arg.expressions[0]
        if e.args.get("filter") is not None:
            raise Unsupported("FILTER")
        if t is exp.Count and (isinstance(arg, exp.Star) or arg is None):
            return self.int_(A.Sum([A.If(m, A.Int(1), A.Int(0)) for m, _ in g]))
        if t not in (exp.Count, exp.Sum, exp.Min, exp.Max, exp.ArrayAgg, exp.AnyValue):
            raise Unsupported(t.__name__)
        vals = []
        for m, renv in g:
            # aggregates' arguments are evaluated in the member row's env (which has no group: nesting is rejected)
            v = self.ev(arg, renv)
            vals.append((m, v))
        if t is exp.ArrayAgg:
            if distinct:
                raise Unsupported("ARRAY_AGG DISTINCT")
            anym = A.Or(*[m for m, _ in vals])
            return V("arr", A.Not(anym), list(vals))
        ints = [(m, self.as_int(v) if v.k != "bool" else v) for m, v in vals]
        if any(v.k == "bool" for _, v in ints):
            if t in (exp.Min, exp.Max, exp.AnyValue, exp.Count):
                ints = [(m, V("int", v.n, A.If(v.v, A.Int(1), A.Int(0))) if v.k == "bool" else v) for m, v in ints]
                was_bool = t in (exp.Min, exp.Max, exp.AnyValue)
            else:
                raise Unsupported("SUM over bool")
        else:
            was_bool = False
        live = [A.And(m, A.Not(v.n)) for m, v in ints]
        if distinct:
            # keep the first of each run of equal values
            keep = []
            for i, (m, v) in enumerate(ints):
                dup = A.Or(*[A.And(live[j], A.Eq(ints[j][1].v, v.v)) for j in range(i)])
                keep.append(A.And(live[i], A.Not(dup)))
            live = keep
        anylive = A.Or(*live)
        if t is exp.Count:
            return self.int_(A.Sum([A.If(l, A.Int(1), A.Int(0)) for l in live]))
        if t is exp.Sum:
            return V("int", A.Not(anylive), A.Sum([A.If(l, v.v, A.Int(0)) for l, (_, v) in zip(live, ints)]))
        if t is exp.AnyValue:
            self.features.add("any_value")
            res = A.Int(0)
            for l, (_, v) in reversed(list(zip(live, ints))):
                res = A.If(l, v.v, res)
            out = V("int", A.Not(anylive), res)
        else:
            res = None
            have = A.F
            for l, (_, v) in zip(live, ints):
                if res is None:
                    res, have = v.v, l
                else:
                    better = (v.v < res) if t is exp.Min else (v.v > res)
                    take = A.And(l, A.Or(A.Not(have), better))
                    res = A.If(take, v.v, res)
                    have = A.Or(have, l)
            out = V("int", A.Not(anylive), res if res is not None else A.Int(0))
        if was_bool:
            return V("bool", out.n, A.Not(A.Eq(out.v, A.Int(0))))
        return out

    # ------------------------------------------------------------------ relations
    def base_table(self, name: str, alias: str) -> Rel:
        if name not in self.tables:
            raise Unsupported(f"unknown table {name}")
        cols = [(alias, c) for c, _k in self.schema[name]]
        rows = [(p, [r[c] for c, _k in self.schema[name]]) for p, r in self.tables[name]]
        return Rel(cols, rows)

    def row_env(self, rel: Rel, vals, outer: Env) -> Env:
        e = Env(self, outer=outer)
        e.cols, e.vals, e.hidden = rel.cols, vals, rel.hidden
        return e

    def source(self, node, env: Env) -> Rel:
        alias_node = node.args.get("alias") if not isinstance(node, exp.Table) else node.args.get("alias")
        alias = _norm_ident(alias_node.this) if alias_node is not None and alias_node.this is not None else ""
        col_aliases = [_norm_ident(c) for c in (alias_node.args.get("columns") or [])] if alias_node is not None else []
        if isinstance(node, exp.Table):
            if node.args.get("db") or node.args.get("catalog") or node.args.get("joins") or node.args.get("pivots") or node.args.get("sample"):
                raise Unsupported("qualified/decorated table")
            if not isinstance(node.this, exp.Identifier):
                raise Unsupported("table function")
            name = _norm_ident(node.this)
            cte = env.find_cte(name)
            if cte is not None:
                rel = Rel([(alias or name, n) for _q, n in cte.cols], cte.rows)
            else:
                rel = self.base_table(name, alias or name)
        elif isinstance(node, exp.Subquery):
            if node.args.get("pivots") or node.args.get("sample"):
                raise Unsupported("pivot")
            inner = self.evq(node.this, env)
            rel = Rel([(alias, n) for _q, n in inner.cols], inner.rows)
        elif isinstance(node, exp.Paren) and isinstance(node.this, (exp.Table, exp.Subquery)):
            return self.source(node.this, env)
        else:
            raise Unsupported("source " + type(node).__name__)
        if col_aliases:
            if len(col_aliases) > len(rel.cols):
                raise Unsupported("too many column aliases")
            rel = Rel([(q, col_aliases[i] if i < len(col_aliases) else n) for i, (q, n) in enumerate(rel.cols)], rel.rows)
        return rel

    def join(self, left: Rel, right: Rel, j: exp.Join, env: Env) -> Rel:
        A = self.A
        side = (j.side or "").upper()
        kind = (j.kind or "").upper()
        method = (j.method or "").upper()
        if method in ("NATURAL", "ASOF", "POSITIONAL") or j.args.get("match_condition") is not None:
            raise Unsupported("join method " + method)
        if kind in ("STRAIGHT_JOIN",):
            raise Unsupported(kind)
        on = j.args.get("on")
        using = [_norm_ident(u) for u in (j.args.get("using") or [])]
        cols = left.cols + right.cols
        hidden = set(left.hidden) | {len(left.cols) + h for h in right.hidden}
        nl, nr = len(left.cols), len(right.cols)

        def idx(rel, name, base):
            hits = [i for i, (q, n) in enumerate(rel.cols) if n == name and i not in rel.hidden]
            if len(hits) != 1:
                raise Unsupported(f"USING column {name} not unique")
            return base + hits[0]

        upairs = [(idx(left, u, 0), idx(right, u, nl)) for u in using]

        def cond(lv, rv):
            vals = lv + rv
            if using:
                return A.And(*[self.is_true(self.cmp("eq", vals[a], vals[b])) for a, b in upairs])
            if on is None:
                return A.T
            e = Env(self, outer=env)
            e.cols, e.vals, e.hidden = cols, vals, hidden
            return self.is_true(self.ev(on, e))

        def nulls(rel):
            return [V(v.k, A.T, v.v) if v.k != "arr" else V("arr", A.T, v.v) for v in (rel.rows[0][1] if rel.rows else [])] \
                if rel.rows else [self.null() for _ in rel.cols]

        m = [[A.And(pl, pr, cond(lv, rv)) for (pr, rv) in right.rows] for (pl, lv) in left.rows]
        rows = []
        if kind in ("SEMI", "ANTI"):
            for i, (pl, lv) in enumerate(left.rows):
                hit = A.Or(*m[i]) if m[i] else A.F
                rows.append((A.And(pl, hit if kind == "SEMI" else A.Not(hit)), lv))
            return Rel(left.cols, rows, left.hidden)
        for i, (pl, lv) in enumerate(left.rows):
            for k, (pr, rv) in enumerate(right.rows):
                rows.append((m[i][k], lv + rv))
        if side in ("LEFT", "FULL"):
            nr_vals = nulls(right)
            for i, (pl, lv) in enumerate(left.rows):
                hit = A.Or(*m[i]) if m[i] else A.F
                rows.append((A.And(pl, A.Not(hit)), lv + nr_vals))
        if side in ("RIGHT", "FULL"):
            nl_vals = nulls(left)
            for k, (pr, rv) in enumerate(right.rows):
                hit = A.Or(*[m[i][k] for i in range(len(left.rows))]) if left.rows else A.F
                rows.append((A.And(pr, A.Not(hit)), nl_vals + rv))
        out_cols = list(cols)
        out_hidden = set(hidden)
        if using:
            # the USING column is visible once, as COALESCE(left, right), at the position of the left column (the order
            # DuckDB and PostgreSQL use for `*`); both originals stay reachable by qualifier (appended, hidden)
            lefts = {a: k for k, (a, _b) in enumerate(upairs)}
            rights = {b for _a, b in upairs}
            new_rows = []
            for p, vals in rows:
                merged = [self.ite(A.Not(vals[a].n), vals[a], vals[b]) for a, b in upairs]
                nv = [merged[lefts[i]] if i in lefts else v for i, v in enumerate(vals)]
                nv = nv + [vals[a] for a, _b in upairs]
                new_rows.append((p, nv))
            out_cols = [((None, cols[i][1]) if i in lefts else c) for i, c in enumerate(cols)] + [cols[a] for a, _b in upairs]
            out_hidden = set(hidden) | rights | {len(cols) + k for k in range(len(upairs))}
            rows = new_rows
        return Rel(out_cols, rows, out_hidden)

    def from_clause(self, sel: exp.Select, env: Env) -> Rel:
        A = self.A
        frm = sel.args.get("from_") or sel.args.get("from")
        if frm is None:
            if sel.args.get("joins"):
                raise Unsupported("joins without FROM")
            return Rel([], [(A.T, [])])
        rel = self.source(frm.this, env)
        for extra in frm.expressions if hasattr(frm, "expressions") and frm.expressions else []:
            raise Unsupported("multiple FROM items")
        for j in sel.args.get("joins") or []:
            if isinstance(j.this, (exp.Lateral, exp.Unnest)):
                raise Unsupported("LATERAL/UNNEST")
            right = self.source(j.this, env)
            rel = self.join(rel, right, j, env)
        return rel

    def output_name(self, p) -> str:
        if isinstance(p, exp.Alias):
            return _norm_ident(p.args["alias"])
        if isinstance(p, exp.Column):
            return _norm_ident(p.this)
        if isinstance(p, exp.Paren):
            return self.output_name(p.this)
        return ""

    def expand_projections(self, sel: exp.Select, rel: Rel):
        """-> list of (name, expr | ('col', index))"""
        out = []
        for p in sel.expressions:
            star_q = None
            node = p
            if isinstance(node, exp.Star):
                star_q = ""
            elif isinstance(node, exp.Column) and isinstance(node.this, exp.Star):
                star_q = _norm_ident(node.args.get("table"))
            if star_q is not None:
                star = node if isinstance(node, exp.Star) else node.this
                if any(star.args.get(k) for k in ("except_", "except", "replace", "rename")):
                    raise Unsupported("star modifiers")
                hit = False
                for i, (q, n) in enumerate(rel.cols):
                    if star_q:
                        if q != star_q:
                            continue
                    elif i in rel.hidden:
                        continue
                    out.append((n, ("col", i)))
                    hit = True
                if not hit:
                    raise Unsupported("star over nothing")
                continue
            out.append((self.output_name(p), p))
        return out

    def evq(self, q, env: Env) -> Rel:
        if isinstance(q, exp.Subquery):
            if q.args.get("alias") is None and not q.args.get("with_") and not q.args.get("with"):
                return self.evq(q.this, env)
            return self.evq(q.this, env)
        if isinstance(q, exp.Paren):
            return self.evq(q.this, env)
        if isinstance(q, exp.SetOperation):
            return self.set_op(q, env)
        if not isinstance(q, exp.Select):
            raise Unsupported("query " + type(q).__name__)
        return self.select(q, env)

    def with_ctes(self, q, env: Env) -> Env:
        w = q.args.get("with_") or q.args.get("with")
        if w is None:
            return env
        if w.args.get("recursive"):
            raise Unsupported("recursive CTE")
        e = env.child()
        for cte in w.expressions:
            name = _norm_ident(cte.args["alias"].this)
            inner = self.evq(cte.this, e)
            cols = [_norm_ident(c) for c in (cte.args["alias"].args.get("columns") or [])]
            if cols:
                inner = Rel([(q_, cols[i] if i < len(cols) else n) for i, (q_, n) in enumerate(inner.cols)], inner.rows)
            e.ctes[name] = inner
        return e

    def set_op(self, q, env: Env) -> Rel:
        A = self.A
        env = self.with_ctes(q, env)
        L = self.evq(q.left, env)
        R = self.evq(q.right, env)
        if len(L.cols) != len(R.cols):
            raise Unsupported("set operation arity")
        if q.args.get("by_name") or q.args.get("side") or q.args.get("kind"):
            raise Unsupported("set operation modifiers")
        distinct = q.args.get("distinct")
        distinct = True if distinct is None else bool(distinct)

        def same_row(a, b):
            return A.And(*[self.same(x, y) for x, y in zip(a, b)])

        def count(rel, row):
            return A.Sum([A.If(A.And(p, same_row(r, row)), A.Int(1), A.Int(0)) for p, r in rel.rows])

        if isinstance(q, exp.Union):
            out = Rel(L.cols, L.rows + R.rows)
            if distinct:
                out = self.distinct(out)
        elif isinstance(q, (exp.Intersect, exp.Except)):
            rows = []
            for i, (p, r) in enumerate(L.rows):
                before = A.Sum([A.If(A.And(L.rows[j][0], same_row(L.rows[j][1], r)), A.Int(1), A.Int(0)) for j in range(i)])
                cr = count(R, r)
                if isinstance(q, exp.Intersect):
                    keep = A.And(p, A.Eq(before, A.Int(0)), cr > A.Int(0)) if distinct else A.And(p, before < cr)
                else:
                    keep = A.And(p, A.Eq(before, A.Int(0)), A.Eq(cr, A.Int(0))) if distinct else A.And(p, before >= cr)
                rows.append((keep, r))
            out = Rel(L.cols, rows)
        else:
            raise Unsupported(type(q).__name__)
        out.cols = [(None, n) for _q, n in L.cols]
        return self.order_limit(q, out, [self.row_env(out, r, env) for _p, r in out.rows], env, is_setop=True)

    def distinct(self, rel: Rel) -> Rel:
        A = self.A
        rows = []
        for i, (p, r) in enumerate(rel.rows):
            dup = A.Or(*[A.And(rel.rows[j][0], A.And(*[self.same(x, y) for x, y in zip(rel.rows[j][1], r)])) for j in range(i)])
            rows.append((A.And(p, A.Not(dup)), r))
        out = Rel(rel.cols, rows, rel.hidden)
        return out

    def select(self, sel: exp.Select, env: Env) -> Rel:
        A = self.A
        for k in ("windows", "pivots", "laterals", "cluster", "distribute", "sort", "into", "locks", "sample", "connect", "match"):
            if sel.args.get(k):
                raise Unsupported(k)
        has_window = any(True for w in sel.find_all(exp.Window) if w.find_ancestor(exp.Select) is sel)
        qualify = sel.args.get("qualify")
        env = self.with_ctes(sel, env)
        rel = self.from_clause(sel, env)
        where = sel.args.get("where")
        renvs = [self.row_env(rel, vals, env) for _p, vals in rel.rows]
        pres = [p for p, _ in rel.rows]
        if where is not None:
            pres = [A.And(p, self.is_true(self.ev(where.this, re))) for p, re in zip(pres, renvs)]
        projs = self.expand_projections(sel, rel)
        group = sel.args.get("group")
        having = sel.args.get("having")
        has_agg = any(self._has_agg(p) for _n, p in projs if not isinstance(p, tuple)) or (having is not None and self._has_agg(having)) \
            or any(self._has_agg(o) for o in ((sel.args.get("order").expressions) if sel.args.get("order") else []))
        distinct = sel.args.get("distinct")
        distinct_on = distinct.args.get("on") if distinct is not None else None
        if (has_window or qualify is not None) and (group is not None or has_agg):
            raise Unsupported("window function over a grouped select")

        def proj_val(p, renv):
            if isinstance(p, tuple):
                if renv.vals is None:
                    raise Unsupported("star in aggregate-only select")
                return renv.vals[p[1]]
            return self.ev(p, renv)

        out_rows = []
        out_envs = []
        names = [n for n, _ in projs]
        if group is not None or has_agg:
            self.features.add("group")
            gexprs = list(group.expressions) if group is not None else []
            if group is not None and (group.args.get("rollup") or group.args.get("cube") or group.args.get("grouping_sets") or group.args.get("all")):
                raise Unsupported("GROUP BY modifiers")
            if gexprs:
                keys = []
                for re in renvs:
                    ks = []
                    for g in gexprs:
                        if isinstance(g, exp.Literal) and not g.is_string:
                            pos = int(g.this) - 1
                            if not (0 <= pos < len(projs)):
                                raise Unsupported("GROUP BY position")
                            ks.append(proj_val(projs[pos][1], re))
                        else:
                            ks.append(self._ev_with_aliases(g, re, projs, prefer_alias=False))
                    keys.append(ks)
                n = len(renvs)
                for i in range(n):
                    members = [A.And(pres[j], A.And(*[self.same(a, b) for a, b in zip(keys[i], keys[j])])) for j in range(n)]
                    leader = A.And(pres[i], A.Not(A.Or(*[members[j] for j in range(i)])))
                    genv = Env(self, outer=renvs[i])
                    genv.group = list(zip(members, renvs))
                    vals = [proj_val(p, genv) for _n, p in projs]
                    pr = leader
                    self._bind_aliases(genv, names, vals)
                    if having is not None:
                        pr = A.And(pr, self.is_true(self.ev(having.this, genv)))
                    out_rows.append((pr, vals))
                    out_envs.append(genv)
            else:
                base = Env(self, outer=env)
                base.cols, base.vals, base.hidden = rel.cols, None, rel.hidden
                genv = Env(self, outer=base)
                genv.group = list(zip(pres, renvs))
                vals = [proj_val(p, genv) for _n, p in projs]
                pr = A.T
                self._bind_aliases(genv, names, vals)
                if having is not None:
                    pr = self.is_true(self.ev(having.this, genv))
                out_rows.append((pr, vals))
                out_envs.append(genv)
        else:
            if having is not None:
                raise Unsupported("HAVING without aggregation")
            win = list(zip(pres, renvs)) if (has_window or qualify is not None) else None
            for i, (p, re) in enumerate(zip(pres, renvs)):
                if win is not None:
                    re.win, re.win_self = win, i
                vals = [proj_val(pp, re) for _n, pp in projs]
                e2 = Env(self, outer=re)
                self._bind_aliases(e2, names, vals)
                if qualify is not None:
                    p = A.And(p, self.is_true(self.ev(qualify.this, e2)))
                out_rows.append((p, vals))
                out_envs.append(e2)
        out = Rel([(None, n) for n in names], out_rows)
        if distinct_on is not None:
            out = self.distinct_on(sel, distinct_on, out, out_envs)
        elif distinct is not None:
            # DISTINCT happens before ORDER BY/LIMIT; ORDER BY may then only use output columns
            d = self.distinct(out)
            out = d
        return self.order_limit(sel, out, out_envs, env)

    def distinct_on(self, sel, on, out: Rel, out_envs) -> Rel:
        """SELECT DISTINCT ON (keys) .. ORDER BY ..: the first row of each key group in ORDER BY order (ties assumed away)."""
        A = self.A
        order = sel.args.get("order")
        if order is None:
            raise Unsupported("DISTINCT ON without ORDER BY")
        self.features.add("distinct-on")
        keys_on = list(on.expressions) if isinstance(on, exp.Tuple) else [on]
        kvals = [[self.ev(k, oe) for k in keys_on] for oe in out_envs]
        tmp = Rel(out.cols, out.rows)
        probe = self.order_limit(_OrderOnly(order), tmp, out_envs, None)
        okeys = probe.order
        n = len(out.rows)

        def before(a, b):
            res = A.F
            for (va, desc, nf), (vb, _d, _n) in reversed(list(zip(okeys[a], okeys[b]))):
                both = A.And(A.Not(va.n), A.Not(vb.n))
                lt = A.And(both, (va.v > vb.v) if desc else (va.v < vb.v))
                null_lt = A.And(va.n, A.Not(vb.n)) if nf else A.And(A.Not(va.n), vb.n)
                eq = A.Or(A.And(va.n, vb.n), A.And(both, A.Eq(va.v, vb.v)))
                res = A.Or(lt, null_lt, A.And(eq, res))
            return res

        rows = []
        for i, (p, vals) in enumerate(out.rows):
            same_group = [A.And(out.rows[j][0], A.And(*[self.same(a, b) for a, b in zip(kvals[j], kvals[i])])) for j in range(n)]
            for j in range(n):
                if j != i:
                    eq = A.And(*[A.Or(A.And(x[0].n, y[0].n), A.And(A.Not(x[0].n), A.Not(y[0].n), A.Eq(x[0].v, y[0].v))) for x, y in zip(okeys[j], okeys[i])])
                    self.assumptions.append(A.Not(A.And(p, same_group[j], eq)))
            earlier = A.Or(*[A.And(same_group[j], before(j, i)) for j in range(n) if j != i])
            rows.append((A.And(p, A.Not(earlier)), vals))
        return Rel(out.cols, rows, out.hidden)

    def _bind_aliases(self, env: Env, names, vals):
        env.aliases = {}
        seen = set()
        for n, v in zip(names, vals):
            if n and n not in seen:
                env.aliases[n] = v
            elif n in seen:
                env.aliases.pop(n, None)
            seen.add(n)

    def _ev_with_aliases(self, e, renv: Env, projs, prefer_alias: bool):
        # GROUP BY <name>: input columns take precedence over output aliases
        try:
            return self.ev(e, renv)
        except Unsupported as u:
            if isinstance(e, exp.Column) and not e.args.get("table") and "unknown column" in str(u):
                name = _norm_ident(e.this)
                for n, p in projs:
                    if n == name and not isinstance(p, tuple):
                        return self.ev(p, renv)
            raise

    def _has_agg(self, e) -> bool:
        if isinstance(e, tuple):
            return False
        for n in e.walk(prune=lambda x: isinstance(x, (exp.Subquery, exp.Select, exp.Window)) and x is not e):
            if isinstance(n, exp.AggFunc):
                return True
        return False

    def order_limit(self, q, out: Rel, out_envs, env: Env, is_setop: bool = False) -> Rel:
        A = self.A
        order = q.args.get("order")
        limit = q.args.get("limit")
        offset = q.args.get("offset")
        if order is None:
            if limit is not None or offset is not None:
                raise Unsupported("LIMIT/OFFSET without ORDER BY")
            return out
        keys_per_row = []
        for (p, vals), oe in zip(out.rows, out_envs):
            ks = []
            for o in order.expressions:
                e = o.this
                desc = bool(o.args.get("desc"))
                nf = o.args.get("nulls_first")
                if nf is None:
                    if self.null_ordering == "small":
                        nulls_first = not desc
                    elif self.null_ordering == "large":
                        nulls_first = desc
                    else:
                        nulls_first = not self.nulls_last_default
                else:
                    nulls_first = bool(nf)
                if o.args.get("with_fill"):
                    raise Unsupported("WITH FILL")
                if isinstance(e, exp.Literal) and not e.is_string:
                    pos = int(e.this) - 1
                    if not (0 <= pos < len(vals)):
                        raise Unsupported("ORDER BY position")
                    v = vals[pos]
                else:
                    v = self._order_key(e, oe, out, vals)
                if v.k == "bool":
                    v = V("int", v.n, A.If(v.v, A.Int(1), A.Int(0)))
                v = self.as_int(v)
                ks.append((v, desc, nulls_first))
            keys_per_row.append(ks)
        out.order = keys_per_row
        if limit is None and offset is None:
            return out
        self.features.add("limit")

        def const_int(node):
            ex = node.expression if isinstance(node, (exp.Limit, exp.Offset)) else node
            if isinstance(node, exp.Limit) and (node.args.get("offset") or node.args.get("limit_options") or node.args.get("expressions")):
                raise Unsupported("LIMIT modifiers")
            if isinstance(ex, exp.Literal) and not ex.is_string:
                return int(ex.this)
            if isinstance(ex, exp.Neg) and isinstance(ex.this, exp.Literal) and not ex.this.is_string and isinstance(node, exp.Limit):
                return -int(ex.this.this)
            raise Unsupported("non-constant LIMIT/OFFSET")

        k = const_int(limit) if limit is not None else None
        if k is not None and k < 0:
            # SQLite: a negative LIMIT means no upper bound (the form sqlglot writes for an OFFSET without LIMIT);
            # other engines reject it, which the engine-acceptance step reports before the semantics are compared
            k = None
        off = const_int(offset) if offset is not None else 0
        n = len(out.rows)

        def before(a, b):
            """row a sorts strictly before row b"""
            res = A.F
            for (va, desc, nf), (vb, _d, _n) in reversed(list(zip(keys_per_row[a], keys_per_row[b]))):
                both = A.And(A.Not(va.n), A.Not(vb.n))
                lt = A.And(both, (va.v > vb.v) if desc else (va.v < vb.v))
                null_lt = A.And(va.n, A.Not(vb.n)) if nf else A.And(A.Not(va.n), vb.n)
                eq = A.Or(A.And(va.n, vb.n), A.And(both, A.Eq(va.v, vb.v)))
                res = A.Or(lt, null_lt, A.And(eq, res))
            return res

        # ties make LIMIT nondeterministic: assumed away for present rows
        for a in range(n):
            for b in range(a + 1, n):
                eq = A.And(*[A.Or(A.And(x[0].n, y[0].n), A.And(A.Not(x[0].n), A.Not(y[0].n), A.Eq(x[0].v, y[0].v)))
                             for x, y in zip(keys_per_row[a], keys_per_row[b])])
                self.assumptions.append(A.Not(A.And(out.rows[a][0], out.rows[b][0], eq)))
        rows = []
        for i, (p, vals) in enumerate(out.rows):
            rank = A.Sum([A.If(A.And(out.rows[j][0], before(j, i)), A.Int(1), A.Int(0)) for j in range(n) if j != i])
            keep = A.And(p, rank >= A.Int(off)) if off else p
            if k is not None:
                keep = A.And(keep, rank < A.Int(off + k))
            rows.append((keep, vals))
        res = Rel(out.cols, rows, out.hidden)
        res.order = keys_per_row
        return res

    def _order_key(self, e, oe: Env, out: Rel, vals):
        # ORDER BY <name>: output aliases take precedence over input columns
        if isinstance(e, exp.Column) and not e.args.get("table"):
            name = _norm_ident(e.this)
            hits = [i for i, (_q, n) in enumerate(out.cols) if n == name]
            if len(hits) == 1:
                return vals[hits[0]]
        if oe is None:
            raise Unsupported("ORDER BY expression over set operation")
        return self.ev(e, oe)
