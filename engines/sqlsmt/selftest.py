"""Self-tests of the E2 encoding, run at the start of every check (a failure is a harness error, exit 3).

1. deliberately wrong rewrites must come back `sat`, known-correct ones `unsat` (the solver side is not vacuous);
2. the evaluator in PyAlg mode agrees with DuckDB on concrete assignments / databases (the semantics are the engine's);
3. the z3 formula evaluated under a concrete assignment agrees with PyAlg (both modes denote the same function).
"""
from __future__ import annotations

import itertools
import random


def scalar_selftest() -> dict:
    import sqlglot
    from engines.sqlsmt.scalar import equiv, eval_py, duckdb_distinct

    P = sqlglot.parse_one
    res = {"ok": True, "wrong_rewrites_sat": 0, "right_rewrites_unsat": 0, "duckdb_agreements": 0, "failures": []}
    wrong = [("x < 1 AND x > 2", "FALSE"), ("NOT (x > 1)", "x < 1"), ("x = x", "TRUE"), ("x <> 1 OR x = 1", "TRUE"), ("p AND NOT p", "FALSE"),
             ("COALESCE(x, 0) = 0", "x = 0"), ("x + 1 > 2", "x > 2"), ("NOT (p AND q)", "NOT p AND NOT q"), ("x IN (1, NULL)", "x = 1"),
             ("CASE WHEN p THEN 1 ELSE 0 END = 0", "NOT p"), ("-x < 1", "x < -1"), ("x * 2 = 4", "x = 1")]
    right = [("NOT (x > 1)", "x <= 1"), ("x + 1 > 2", "x > 1"), ("NOT (p AND q)", "NOT p OR NOT q"), ("x BETWEEN 0 AND 2", "x >= 0 AND x <= 2"),
             ("p AND (p OR q)", "p"), ("x IN (1, 2)", "x = 1 OR x = 2"), ("COALESCE(x, 0) = 1", "x IS NOT NULL AND x = 1"), ("1 - x < 2", "x > -1"),
             ("x = 1 AND x = 1", "x = 1"), ("NOT NOT p", "p"), ("x < 1 AND x > 2", "x < 1 AND x > 2 AND NULL"), ("p OR TRUE", "TRUE")]
    for a, b in wrong:
        r = equiv(P(a), P(b))
        if r["verdict"] == "sat":
            res["wrong_rewrites_sat"] += 1
        else:
            res["ok"] = False
            res["failures"].append(("wrong rewrite not refuted", a, b, r["verdict"]))
    for a, b in right:
        r = equiv(P(a), P(b))
        if r["verdict"] == "unsat":
            res["right_rewrites_unsat"] += 1
        else:
            res["ok"] = False
            res["failures"].append(("right rewrite refuted", a, b, r["verdict"], r.get("assignment")))
    rnd = random.Random(7)
    exprs = ["x + y * 2 - 1", "x < y OR NOT p", "x BETWEEN y AND 2", "COALESCE(x, y, 3)", "CASE WHEN x > y THEN x WHEN p THEN y END",
             "x IN (y, 1, NULL)", "NOT (x = y AND p) OR q", "NULLIF(x, y)", "x IS NULL OR p IS TRUE", "(x > 1) = p", "x NOT IN (1, y)",
             "-x > y", "p AND NULL", "p OR NULL", "NOT (NULL = x)", "IF(p, x, y) <> 2"]
    dom_i, dom_b = [None, -1, 0, 1, 2], [None, True, False]
    for e in exprs:
        tree = P(e)
        for _ in range(6):
            asg = {"x": rnd.choice(dom_i), "y": rnd.choice(dom_i), "p": rnd.choice(dom_b), "q": rnd.choice(dom_b)}
            mine = eval_py(tree, asg)
            lit = "NULL" if mine is None else (str(mine).upper() if isinstance(mine, bool) else str(mine))
            typ = "BOOLEAN" if isinstance(mine, bool) else "BIGINT"
            d = duckdb_distinct(tree.sql("duckdb"), f"CAST({lit} AS {typ})", asg, {"x": "int", "y": "int", "p": "bool", "q": "bool"})
            if d.get("ok") and not d["differs"]:
                res["duckdb_agreements"] += 1
            else:
                res["ok"] = False
                res["failures"].append(("evaluator disagrees with duckdb", e, asg, mine, d))
    return res


REL_QUERIES = [
    "SELECT x.a, y.c FROM x LEFT JOIN y ON x.b = y.b WHERE y.c IS NULL OR y.c > 0",
    "SELECT x.a, y.c FROM x FULL JOIN y ON x.b = y.b",
    "SELECT a, SUM(b) AS s, COUNT(*) AS n, COUNT(b) AS m, MIN(b) AS lo, MAX(b) AS hi FROM x GROUP BY a",
    "SELECT SUM(b) AS s, COUNT(*) AS n FROM x WHERE a > 100",
    "SELECT a FROM x WHERE a NOT IN (SELECT b FROM y)",
    "SELECT a, (SELECT MAX(c) FROM y WHERE y.b = x.a) AS m FROM x",
    "SELECT a FROM x EXCEPT ALL SELECT b FROM y",
    "SELECT a FROM x INTERSECT SELECT b FROM y",
    "WITH t AS (SELECT a, b FROM x WHERE a > 0) SELECT t1.a, t2.b FROM t AS t1 JOIN t AS t2 ON t1.a = t2.b",
    "SELECT a, b FROM x ORDER BY a DESC NULLS FIRST, b LIMIT 2 OFFSET 1",
    "SELECT a FROM x WHERE a > ALL (SELECT b FROM y)",
    "SELECT * FROM x JOIN y USING (b)",
    "SELECT a, COUNT(*) AS n FROM x GROUP BY a HAVING COUNT(*) > 1",
    "SELECT DISTINCT a, b FROM x",
    "SELECT a FROM x WHERE EXISTS (SELECT 1 FROM y WHERE y.b = x.a AND y.c > 0)",
]


def relational_selftest(n_db: int = 12) -> dict:
    import sqlglot
    from engines.sqlsmt import bridge
    from engines.sqlsmt.oblig import SCHEMA, QueryPair, eval_concrete

    P = lambda s: sqlglot.parse_one(s, read="duckdb")
    res = {"ok": True, "wrong_rewrites_sat": 0, "right_rewrites_unsat": 0, "duckdb_agreements": 0, "failures": []}
    wrong = [
        ("SELECT x.a, y.c FROM x LEFT JOIN y ON x.b = y.b WHERE y.c = 1", "SELECT x.a, y.c FROM x LEFT JOIN (SELECT * FROM y WHERE y.c = 1) AS y ON x.b = y.b"),
        ("SELECT x.a FROM x LEFT JOIN y ON x.b = y.b", "SELECT x.a FROM x JOIN y ON x.b = y.b"),
        ("SELECT a FROM x WHERE a NOT IN (SELECT b FROM y)", "SELECT x.a FROM x LEFT JOIN y ON x.a = y.b WHERE y.b IS NULL"),
        ("SELECT a FROM x WHERE a IN (SELECT b FROM y)", "SELECT x.a FROM x JOIN y ON x.a = y.b"),
        ("SELECT DISTINCT a FROM x", "SELECT a FROM x"),
        ("SELECT a FROM (SELECT a FROM x ORDER BY a LIMIT 1) AS q WHERE a > 0", "SELECT a FROM (SELECT a FROM x WHERE a > 0 ORDER BY a LIMIT 1) AS q"),
    ]
    right = [
        ("SELECT x.a, y.c FROM x JOIN y ON x.b = y.b WHERE y.c = 1", "SELECT x.a, y.c FROM x JOIN (SELECT * FROM y WHERE y.c = 1) AS y ON x.b = y.b"),
        ("SELECT a FROM x WHERE a IN (SELECT b FROM y)", "SELECT x.a FROM x LEFT JOIN (SELECT b FROM y GROUP BY b) AS u ON x.a = u.b WHERE NOT u.b IS NULL"),
        ("SELECT a FROM x WHERE a > 1 AND b < 2", "SELECT a FROM (SELECT a, b FROM x WHERE a > 1) AS q WHERE b < 2"),
        ("SELECT a FROM x UNION SELECT b FROM y", "SELECT DISTINCT a FROM (SELECT a FROM x UNION ALL SELECT b FROM y) AS q"),
    ]
    for a, b in wrong:
        r = QueryPair(P(a), P(b), K=2).decide()
        if r["verdict"] == "sat":
            res["wrong_rewrites_sat"] += 1
        else:
            res["ok"] = False
            res["failures"].append(("wrong rewrite not refuted", a, b, r["verdict"]))
    for a, b in right:
        r = QueryPair(P(a), P(b), K=2).decide()
        if r["verdict"] == "unsat":
            res["right_rewrites_unsat"] += 1
        else:
            res["ok"] = False
            res["failures"].append(("right rewrite refuted", a, b, r["verdict"], r.get("data")))
    rnd = random.Random(11)
    dom = [None, -1, 0, 1, 2, 3]
    for q in REL_QUERIES:
        tree = P(q)
        for _ in range(n_db):
            db = {t: [tuple(rnd.choice(dom) for _ in cols) for _ in range(rnd.randint(0, 3))] for t, cols in SCHEMA.items()}
            names, rows, ordered, assume_ok = eval_concrete(tree, db)
            if not assume_ok:
                continue
            r = bridge.run_duckdb(q, db, SCHEMA)
            if r["ok"] and bridge.same_rows(rows, r["rows"], ordered):
                res["duckdb_agreements"] += 1
            else:
                res["ok"] = False
                res["failures"].append(("evaluator disagrees with duckdb", q, db, rows, r))
    return res
