"""Scalar translation validation: e ==3 e' for every assignment of the columns (unbounded integers, booleans, NULL)."""
from __future__ import annotations

import z3

from sqlglot import exp

from engines.sqlsmt.alg import PyAlg, Z3Alg
from engines.sqlsmt.sem import Env, Sem, Unsupported, V, _norm_ident

INT_COLS = set("xyzabcdefghijklmnouvw")
BOOL_COLS = set("pqrst")


def col_kind(name: str):
    base = name.lower()
    if base in INT_COLS or (base[:1] in INT_COLS and base[1:].isdigit()):
        return "int"
    if base in BOOL_COLS or (base[:1] in BOOL_COLS and base[1:].isdigit()):
        return "bool"
    return None


def infer_kinds(*exprs) -> dict:
    """Column kinds by usage: a column used as an operand of AND/OR/NOT, as a condition or compared with a boolean is
    boolean; one used in arithmetic or compared with a number is an integer; `a = b` links the two.  Columns whose usage
    says nothing fall back to the naming convention.  Conflicting usage -> the column is left out (Unsupported later)."""
    hints: dict = {}
    links = []

    def key(c):
        q = _norm_ident(c.args.get("table"))
        return (q + "." if q else "") + _norm_ident(c.this)

    def up(n):
        p = n.parent
        while isinstance(p, exp.Paren):
            n, p = p, p.parent
        return n, p

    def kind_of(n):
        n = n.unnest() if isinstance(n, exp.Paren) else n
        if isinstance(n, (exp.Boolean, exp.Connector, exp.Not, exp.Predicate)) and not isinstance(n, exp.Column):
            return "bool"
        if isinstance(n, exp.Literal) and not n.is_string:
            return "int"
        if isinstance(n, (exp.Add, exp.Sub, exp.Mul, exp.Neg)):
            return "int"
        return None

    for e in exprs:
        for c in e.find_all(exp.Column):
            if isinstance(c.this, exp.Star):
                continue
            k = key(c)
            node, p = up(c)
            h = None
            if p is None or isinstance(p, (exp.Connector, exp.Not)):
                h = "bool"
            elif isinstance(p, (exp.Add, exp.Sub, exp.Mul, exp.Neg, exp.Between)):
                h = "int"
            elif isinstance(p, exp.Is) and isinstance(p.expression, (exp.Boolean,)):
                h = "bool"
            elif isinstance(p, exp.If) and p.this is node:
                h = "bool"
            elif isinstance(p, exp.Case) and p.args.get("this") is None and False:
                h = "bool"
            elif isinstance(p, (exp.EQ, exp.NEQ, exp.LT, exp.LTE, exp.GT, exp.GTE, exp.NullSafeEQ, exp.NullSafeNEQ)):
                other = p.right if p.left is node else p.left
                o = other.unnest() if isinstance(other, exp.Paren) else other
                if isinstance(o, exp.Column) and not isinstance(o.this, exp.Star):
                    links.append((k, key(o)))
                else:
                    h = kind_of(o)
            elif isinstance(p, exp.In):
                if p.this is node:
                    ks = {kind_of(x) for x in p.expressions} - {None}
                    h = ks.pop() if len(ks) == 1 else None
            if h:
                hints.setdefault(k, set()).add(h)
    changed = True
    while changed:
        changed = False
        for a, b in links:
            for x, y in ((a, b), (b, a)):
                for h in list(hints.get(x, ())):
                    if h not in hints.setdefault(y, set()):
                        hints[y].add(h)
                        changed = True
    return {k: next(iter(v)) for k, v in hints.items() if len(v) == 1} | {k: "conflict" for k, v in hints.items() if len(v) > 1}


class FreeEnv(Env):
    """Columns are free variables, typed by the naming convention above; qualifiers are part of the name."""

    def __init__(self, sem, A, store, kinds=None):
        super().__init__(sem)
        self.A = A
        self.store = store
        self.kinds = kinds or {}

    def lookup(self, qual, name, prefer_alias=False):
        e = self
        if name in self.lambda_vars and not qual:
            return self.lambda_vars[name]
        key = (qual + "." if qual else "") + name
        kind = self.kinds.get(key) or col_kind(name)
        if kind == "conflict":
            raise Unsupported("column used both as boolean and as integer: " + key)
        if kind is None:
            kind = "int"
        if key not in self.store:
            if isinstance(self.A, Z3Alg):
                n = z3.Bool(key + "__n")
                v = z3.Int(key + "__v") if kind == "int" else z3.Bool(key + "__v")
                self.store[key] = V(kind, n, v)
            else:
                raise Unsupported("unbound column " + key)
        return self.store[key]


def equiv(e1: exp.Expr, e2: exp.Expr, timeout_ms: int = 5000, assume_nonnull: bool = False, bound: int | None = None):
    """-> dict(verdict = unsat|sat|unknown|kind-mismatch, assignment = {col: value|None}, seconds)"""
    import time

    A = Z3Alg()
    sem = Sem(A, {}, {})
    store: dict = {}
    env = FreeEnv(sem, A, store, infer_kinds(e1, e2))
    a = sem.ev(e1, env)
    b = sem.ev(e2, env)
    if a.k == "arr" or b.k == "arr":
        raise Unsupported("array result")
    if a.k == "null" and b.k == "null":
        return {"verdict": "unsat", "assignment": None, "seconds": 0.0}
    if a.k != b.k and "null" not in (a.k, b.k):
        return {"verdict": "kind-mismatch", "assignment": None, "seconds": 0.0, "kinds": (a.k, b.k)}
    s = z3.Solver()
    s.set("timeout", timeout_ms)
    s.add(A.Not(sem.same(a, b)))
    for t in sem.assumptions:
        s.add(t)
    if assume_nonnull:
        for v in store.values():
            s.add(z3.Not(v.n))
    if bound is not None:
        for v in store.values():
            if v.k == "int":
                s.add(v.v >= -bound, v.v <= bound)
    t0 = time.time()
    r = s.check()
    dt = time.time() - t0
    out = {"verdict": str(r), "assignment": None, "seconds": dt}
    if r == z3.sat:
        m = s.model()
        asg = {}
        for key, v in store.items():
            if z3.is_true(m.eval(v.n, model_completion=True)):
                asg[key] = None
            elif v.k == "int":
                asg[key] = m.eval(v.v, model_completion=True).as_long()
            else:
                asg[key] = z3.is_true(m.eval(v.v, model_completion=True))
        out["assignment"] = asg
        out["kinds"] = {k: v.k for k, v in store.items()}
    return out


def eval_py(e: exp.Expr, assignment: dict):
    """three-valued evaluation with plain Python values -> None | int | bool"""
    A = PyAlg()
    sem = Sem(A, {}, {})
    store = {}
    kinds = infer_kinds(e)
    for k, val in assignment.items():
        kind = kinds.get(k) or col_kind(k.split(".")[-1]) or ("bool" if isinstance(val, bool) else "int")
        store[k] = V(kind, val is None, (0 if kind == "int" else False) if val is None else val)
    env = FreeEnv(sem, A, store)
    v = sem.ev(e, env)
    return None if v.n else v.v


def duckdb_distinct(e1_sql: str, e2_sql: str, assignment: dict, kinds: dict):
    """Evaluates both expressions on DuckDB under the assignment. -> dict(ok, differs, v1, v2 | error)"""
    import duckdb

    cols = []
    # group by qualifier so that `t.x` can be resolved
    by_q: dict = {}
    for key, val in assignment.items():
        q, _, n = key.rpartition(".")
        by_q.setdefault(q, []).append((n, val, kinds.get(key, "int")))
    froms = []
    for q, items in by_q.items():
        sel = ", ".join(
            f"CAST({'NULL' if val is None else (str(val).upper() if isinstance(val, bool) else val)} AS {'BIGINT' if kind == 'int' else 'BOOLEAN'}) AS {n}"
            for n, val, kind in items)
        froms.append(f"(SELECT {sel}) AS {q or '_t'}")
    from_sql = " CROSS JOIN ".join(froms) if froms else "(SELECT 1) AS _t"
    sql = f"SELECT ({e1_sql}) AS v1, ({e2_sql}) AS v2, ({e1_sql}) IS NOT DISTINCT FROM ({e2_sql}) AS same FROM {from_sql}"
    con = duckdb.connect(":memory:")
    try:
        row = con.execute(sql).fetchone()
        return {"ok": True, "differs": not bool(row[2]), "v1": row[0], "v2": row[1], "sql": sql}
    except Exception as ex:
        return {"ok": False, "error": type(ex).__name__ + ": " + str(ex)[:200], "sql": sql}
    finally:
        con.close()
