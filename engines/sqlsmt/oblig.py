"""Obligations over the SQL semantics: symbolic databases, scalar / relational equivalence, models -> concrete data."""
from __future__ import annotations

import time

import z3

from engines.sqlsmt.alg import PyAlg, Z3Alg
from engines.sqlsmt.sem import Env, Rel, Sem, Unsupported, V

SCHEMA = {"x": [("a", "int"), ("b", "int")], "y": [("b", "int"), ("c", "int")], "z": [("b", "int"), ("c", "int")]}


def sym_tables(A: Z3Alg, schema: dict, K: int, tag: str = ""):
    tables = {}
    for t, cols in schema.items():
        rows = []
        for i in range(K):
            p = z3.Bool(f"{tag}{t}_p{i}")
            r = {}
            for c, kind in cols:
                n = z3.Bool(f"{tag}{t}_{c}{i}_n")
                v = z3.Int(f"{tag}{t}_{c}{i}") if kind == "int" else z3.Bool(f"{tag}{t}_{c}{i}")
                r[c] = V(kind, n, v)
            rows.append((p, r))
        tables[t] = rows
    return tables


def concrete_tables(data: dict, schema: dict):
    """data: table -> list of row tuples (None = NULL) -> PyAlg tables"""
    tables = {}
    for t, cols in schema.items():
        rows = []
        for tup in data.get(t, []):
            r = {}
            for (c, kind), val in zip(cols, tup):
                if val is None:
                    r[c] = V(kind, True, 0 if kind == "int" else False)
                else:
                    r[c] = V(kind, False, val)
            rows.append((True, r))
        tables[t] = rows
    return tables


def model_to_data(model, schema: dict, K: int, tag: str = "") -> dict:
    data = {}
    for t, cols in schema.items():
        rows = []
        for i in range(K):
            p = model.eval(z3.Bool(f"{tag}{t}_p{i}"), model_completion=True)
            if not z3.is_true(p):
                continue
            tup = []
            for c, kind in cols:
                n = model.eval(z3.Bool(f"{tag}{t}_{c}{i}_n"), model_completion=True)
                if z3.is_true(n):
                    tup.append(None)
                elif kind == "int":
                    tup.append(model.eval(z3.Int(f"{tag}{t}_{c}{i}"), model_completion=True).as_long())
                else:
                    tup.append(z3.is_true(model.eval(z3.Bool(f"{tag}{t}_{c}{i}"), model_completion=True)))
            rows.append(tuple(tup))
        data[t] = rows
    return data


def rel_neq(sem: Sem, R: Rel, S: Rel):
    """term that is true iff the two relations differ as bags (as sequences when both carry ORDER BY keys)."""
    A = sem.A
    if len(R.cols) != len(S.cols):
        return A.T
    use_order = R.order is not None and S.order is not None and len(R.order) == len(R.rows) and len(S.order) == len(S.rows) \
        and (not R.rows or not S.rows or len(R.order[0]) == len(S.order[0]))

    def ext(rel, i):
        vals = list(rel.rows[i][1])
        if use_order:
            vals = vals + [k[0] for k in rel.order[i]]
        return vals

    rows_r = [(R.rows[i][0], ext(R, i)) for i in range(len(R.rows))]
    rows_s = [(S.rows[i][0], ext(S, i)) for i in range(len(S.rows))]

    def same_row(a, b):
        return A.And(*[sem.same(x, y) for x, y in zip(a, b)])

    def count(rows, row):
        return A.Sum([A.If(A.And(p, same_row(r, row)), A.Int(1), A.Int(0)) for p, r in rows])

    conds = []
    for p, r in rows_r + rows_s:
        conds.append(A.And(p, A.Not(A.Eq(count(rows_r, r), count(rows_s, r)))))
    return A.Or(*conds)


def val_neq(sem: Sem, a: V, b: V):
    A = sem.A
    if a.k == "null" and b.k == "null":
        return A.F
    return A.Not(sem.same(a, b))


def solve(terms, assumptions, timeout_ms: int):
    s = z3.Solver()
    s.set("timeout", timeout_ms)
    for a in assumptions:
        s.add(a)
    for t in terms:
        s.add(t)
    t0 = time.time()
    r = s.check()
    dt = time.time() - t0
    return str(r), (s.model() if r == z3.sat else None), dt, s


class QueryPair:
    """Relational obligation: do q1 and q2 denote the same relation on every database with <= K rows per table?"""

    def __init__(self, q1, q2, schema=SCHEMA, K=2, timeout_ms=10000, sem_kw1=None, sem_kw2=None):
        self.q1, self.q2, self.schema, self.K, self.timeout_ms = q1, q2, schema, K, timeout_ms
        self.sem_kw1, self.sem_kw2 = sem_kw1 or {}, sem_kw2 or {}

    def decide(self):
        A = Z3Alg()
        tables = sym_tables(A, self.schema, self.K)
        s1 = Sem(A, tables, self.schema, **self.sem_kw1)
        s2 = Sem(A, tables, self.schema, **self.sem_kw2)
        r1 = s1.evq(self.q1, Env(s1))
        r2 = s2.evq(self.q2, Env(s2))
        names1 = [n for _q, n in r1.cols]
        names2 = [n for _q, n in r2.cols]
        res = {"names": (names1, names2), "features": sorted(s1.features | s2.features)}
        if len(names1) != len(names2):
            res.update(verdict="sat", reason="arity", model=None, data={}, seconds=0.0)
            return res
        neq = rel_neq(s1, r1, r2)
        verdict, model, dt, solver = solve([neq], s1.assumptions + s2.assumptions, self.timeout_ms)
        res.update(verdict=verdict, seconds=dt)
        if model is not None:
            res["data"] = model_to_data(model, self.schema, self.K)
        # vacuity: can both sides be non-empty?
        return res

    def nonempty_possible(self):
        A = Z3Alg()
        tables = sym_tables(A, self.schema, self.K)
        s1 = Sem(A, tables, self.schema, **self.sem_kw1)
        r1 = s1.evq(self.q1, Env(s1))
        verdict, _m, _dt, _s = solve([A.Or(*[p for p, _ in r1.rows])], s1.assumptions, self.timeout_ms)
        return verdict == "sat"


def eval_concrete(q, data: dict, schema=SCHEMA, **sem_kw):
    """PyAlg evaluation on a concrete database -> (names, list of row tuples, ordered?)"""
    A = PyAlg()
    sem = Sem(A, concrete_tables(data, schema), schema, **sem_kw)
    rel = sem.evq(q, Env(sem))
    rows = []
    for i, (p, vals) in enumerate(rel.rows):
        if p:
            tup = tuple(None if v.n else (v.v if v.k != "arr" else "arr") for v in vals)
            key = None
            if rel.order is not None:
                key = rel.order[i]
            rows.append((tup, key))
    ordered = rel.order is not None
    if ordered:
        import functools

        def cmp(a, b):
            for (va, desc, nf), (vb, _d, _n) in zip(a[1], b[1]):
                if va.n and vb.n:
                    continue
                if va.n or vb.n:
                    first = va.n if nf else vb.n
                    return -1 if (first and va.n) or (not nf and not va.n) else 1
                if va.v != vb.v:
                    lt = va.v > vb.v if desc else va.v < vb.v
                    return -1 if lt else 1
            return 0

        rows.sort(key=functools.cmp_to_key(cmp))
    return [n for _q, n in rel.cols], [r for r, _k in rows], ordered, all(bool(a) for a in sem.assumptions)
