"""Writes /verif/evidence/<id>.json (schema: /root/.vp/EVIDENCE.schema.json)."""
import json
import os

VERIF = os.path.dirname(os.path.dirname(os.path.abspath(__file__)))


def write_evidence(prop_id, tier, seed, level, coverage, assumptions, wall_s, violations):
    os.makedirs(os.path.join(VERIF, "evidence"), exist_ok=True)
    doc = {
        "property_id": prop_id,
        "tier": tier,
        "seed": int(seed),
        "level": level,
        "coverage": coverage,
        "assumptions": list(assumptions),
        "wall_s": round(float(wall_s), 2),
        "violations": int(violations),
    }
    path = os.path.join(VERIF, "evidence", f"{prop_id}.json")
    tmp = path + ".tmp"
    with open(tmp, "w") as fh:
        json.dump(doc, fh, indent=1, sort_keys=False, default=repr)
    os.replace(tmp, path)
    return path
