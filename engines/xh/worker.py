"""Runs CrossHair on ONE contracted function of ONE harness module and prints a JSON verdict.

usage: worker.py <module.py> <function> <per_condition_timeout> <per_path_timeout>
env:   XH_PARAMS = JSON parameters read by the harness module at import time.

The harness module is imported *outside* tracing (all concrete set-up happens there); only the
body of the contracted function runs under CrossHair's tracer with symbolic arguments.

Verdicts (field "verdict"):
  confirmed     CrossHair: "Confirmed over all paths" -- the post-condition holds for EVERY input
                that satisfies pre: (the solver exhausted the path tree).
  refuted       a counterexample was produced; field "counterexamples" holds the realised args.
  pre_unsat     "Unable to meet precondition" (vacuous pre:, or every path aborted/timed out).
  inconclusive  "Not confirmed" / unknown: budget exhausted before the tree was exhausted.
  error         the harness itself failed (syntax error in the contract, import failure, ...).
"""
from __future__ import annotations

import importlib.util
import json
import os
import sys
import time
import traceback


def _jsonable(x):
    if isinstance(x, (str, int, bool)) or x is None:
        return x
    if isinstance(x, float):
        return x
    if isinstance(x, (list, tuple)):
        return [_jsonable(i) for i in x]
    if isinstance(x, dict):
        return {str(k): _jsonable(v) for k, v in x.items()}
    return repr(x)


def main() -> int:
    mod_path, func_name, cond_timeout, path_timeout = sys.argv[1:5]
    max_unint = int(sys.argv[5]) if len(sys.argv) > 5 else None
    t0 = time.time()
    out = {"verdict": "error", "messages": [], "counterexamples": [], "paths": 0,
           "confirmed_paths": 0}
    try:
        here = os.path.dirname(os.path.dirname(os.path.dirname(os.path.abspath(__file__))))
        if here not in sys.path:
            sys.path.insert(0, here)
        import crosshair.core as core
        import crosshair.core_and_libs  # noqa: F401  (registers library models)
        from crosshair.condition_parser import Conditions
        from crosshair.options import AnalysisOptionSet, AnalysisKind
        from crosshair.statespace import MessageType

        captured = []
        _orig_fmt = Conditions.format_counterexample

        def _fmt(self, args, return_val, repr_overrides):
            try:
                captured.append(_jsonable(dict(args.arguments)))
            except Exception:
                captured.append(None)
            return _orig_fmt(self, args, return_val, repr_overrides)

        Conditions.format_counterexample = _fmt

        analyses = []
        _orig_act = core.analyze_calltree

        def _act(options, conditions):
            r = _orig_act(options, conditions)
            analyses.append(r)
            return r

        core.analyze_calltree = _act

        spec = importlib.util.spec_from_file_location("xh_harness_" + os.path.basename(mod_path)[:-3], mod_path)
        mod = importlib.util.module_from_spec(spec)
        sys.modules[spec.name] = mod
        spec.loader.exec_module(mod)
        fn = getattr(mod, func_name)

        import collections

        stats = collections.Counter()
        kw = dict(
            analysis_kind=[AnalysisKind.PEP316],
            per_condition_timeout=float(cond_timeout),
            per_path_timeout=float(path_timeout),
            report_all=True,
            stats=stats,
        )
        if max_unint is not None:
            kw["max_uninteresting_iterations"] = max_unint
        opts = AnalysisOptionSet(**kw)
        checkables = core.analyze_function(fn, opts)
        if not checkables:
            out["messages"].append("no conditions found on " + func_name)
        msgs = core.run_checkables(checkables)
        verdict = None
        for m in msgs:
            out["messages"].append({"state": m.state.name, "message": m.message, "line": m.line})
            st = m.state
            if st == MessageType.CONFIRMED:
                verdict = verdict or "confirmed"
            elif st == MessageType.CANNOT_CONFIRM:
                verdict = "inconclusive" if verdict in (None, "confirmed") else verdict
            elif st == MessageType.PRE_UNSAT:
                verdict = "pre_unsat" if verdict in (None, "confirmed", "inconclusive") else verdict
            elif st in (MessageType.POST_FAIL, MessageType.EXEC_ERR, MessageType.POST_ERR):
                verdict = "refuted"
            elif st in (MessageType.SYNTAX_ERR, MessageType.IMPORT_ERR):
                verdict = "error"
        out["verdict"] = verdict or ("error" if not checkables else "inconclusive")
        out["counterexamples"] = captured
        out["paths"] = int(stats.get("num_paths", 0))
        out["confirmed_paths"] = sum(a.num_confirmed_paths for a in analyses)
    except BaseException as e:  # noqa: BLE001 - report everything, the runner decides
        out["verdict"] = "error"
        out["messages"].append({"state": "WORKER_EXC", "message": "".join(traceback.format_exception_only(type(e), e)).strip(),
                                "tb": traceback.format_exc()[-2000:]})
    out["seconds"] = round(time.time() - t0, 2)
    sys.stdout.write("\nXHRESULT " + json.dumps(out) + "\n")
    sys.stdout.flush()
    return 0


if __name__ == "__main__":
    sys.exit(main())
