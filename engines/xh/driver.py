"""Generic driver for E1 (CrossHair) properties: run obligations, replay counterexamples, apply the
known-findings file, write evidence, set the exit code (DESIGN §4)."""
from __future__ import annotations

import json
import os
import sys
import time

from engines.xh.runner import Obl, run_obligations, replay, VERIF
from engines import kf as kfmod
from engines.evidence import write_evidence

MAX_SPURIOUS_ROUNDS = 5


def _match(params: dict, sel: dict) -> bool:
    for k, v in sel.items():
        pv = params.get(k)
        if isinstance(v, list):
            if pv not in v:
                return False
        elif pv != v:
            return False
    return True


def apply_regions(obls: list[Obl], findings: list[dict]) -> None:
    """Conjoins the negation of every open known-finding region to the pre: of matching obligations."""
    for f in findings:
        if f.get("status") != "open":
            continue
        sel = f.get("select", {})
        for o in obls:
            if sel.get("harness") and sel["harness"] != o.harness:
                continue
            if not _match(o.params, sel.get("params_match", {})):
                continue
            for k, v in f.get("region", {}).items():
                if k == "skip":
                    o.desc["skipped_by_finding"] = f["id"]
                    continue
                if isinstance(v, list):
                    cur = list(o.params.get(k, []))
                    for x in v:
                        if x not in cur:
                            cur.append(x)
                    o.params[k] = cur
                else:
                    o.params[k] = v
            o.desc.setdefault("excluded_regions", []).append(f["id"])


def run_e1(prop_id: str, tier: str, seed: int, obls: list[Obl], *, functions_encoded: list[str], stubs: list[str],
           assumptions: list[str], rule: str, bounds: dict, jobs: int = 16, extra_coverage: dict | None = None,
           pre_violations: list[dict] | None = None, spurious_inconclusive: bool = True, max_spurious_rounds: int = MAX_SPURIOUS_ROUNDS,
           inconclusive_probe=None) -> int:
    t0 = time.time()
    findings = kfmod.load(prop_id)
    apply_regions(obls, findings)
    skipped = [o for o in obls if o.desc.get("skipped_by_finding")]
    obls = [o for o in obls if not o.desc.get("skipped_by_finding")]
    for o in skipped:
        print(f"[{prop_id}] obligation {o.key} lies entirely inside known-finding region {o.desc['skipped_by_finding']}: not explored", flush=True)

    def log(kind, o, r):
        print(f"[{prop_id}] {kind:4s} {o.key:60s} {r.get('verdict'):12s} paths={r.get('paths')} {r.get('seconds')}s", flush=True)

    results = run_obligations(obls, jobs=jobs, log=log)
    by_key = {o.key: o for o in obls}
    violations: list[dict] = list(pre_violations or [])
    spurious: list[dict] = []
    harness_errors: list[str] = []

    # --- replay loop for refuted obligations
    for rnd in range(max_spurious_rounds + 1):
        rerun: list[Obl] = []
        for key, r in list(results.items()):
            if r.get("verdict") != "refuted" or r.get("settled"):
                continue
            o = by_key[key]
            ces = [c for c in r.get("counterexamples", []) if c is not None]
            if not ces:
                harness_errors.append(f"{key}: refuted without captured counterexample: {r.get('messages')}")
                r["settled"] = True
                continue
            args = ces[-1]
            rp = replay(o.harness, o.params, args)
            r.setdefault("replays", []).append({"args": args, "replay": rp})
            if not rp.get("ok"):
                harness_errors.append(f"{key}: replay failed: {rp}")
                r["settled"] = True
            elif rp.get("holds") is False and rp.get("in_bounds") is not False:
                violations.append({"obligation": key, "harness": o.harness, "params": o.params, "args": args,
                                   "detail": rp.get("detail", ""), "messages": r.get("messages")})
                r["settled"] = True
            else:
                spurious.append({"obligation": key, "args": args, "replay": rp})
                if rnd < max_spurious_rounds and _can_exclude(args):
                    o.params.setdefault("exclude_exact", []).append(_exclude_value(args))
                    o.twin = None
                    rerun.append(o)
                elif spurious_inconclusive:
                    # the harness's unit-level assertion is knowingly stricter than the property (e.g. C01): deviations
                    # that are not observable through the public API are recorded, the obligation stays inconclusive
                    r["verdict"] = "inconclusive"
                    r["settled"] = True
                else:
                    harness_errors.append(f"{key}: spurious counterexample could not be excluded: {args}")
                    r["settled"] = True
        if not rerun:
            break
        print(f"[{prop_id}] re-running {len(rerun)} obligation(s) after non-reproducing counterexample(s)", flush=True)
        new = run_obligations(rerun, jobs=jobs, log=log)
        for k, v in new.items():
            v["twin"] = results[k].get("twin")
            v["replays"] = results[k].get("replays", [])
            results[k] = v

    # --- obligations that did not reach a verdict: optional concrete witness search (never a deciding step)
    if inconclusive_probe is not None:
        for key, r in results.items():
            if r.get("verdict") in ("inconclusive", "pre_unsat") or (r.get("verdict") == "error" and "NO_RESULT" in json.dumps(r.get("messages"))):
                o = by_key[key]
                w = inconclusive_probe(o, r)
                if w:
                    rp = replay(o.harness, o.params, w["args"], timeout=30)
                    r.setdefault("replays", []).append({"args": w["args"], "replay": rp, "from": "watchdog probe"})
                    if rp.get("ok") and rp.get("holds") is False:
                        violations.append({"obligation": key, "harness": o.harness, "params": o.params, "args": w["args"],
                                           "detail": (w.get("why", "") + " :: " + str(rp.get("detail", "")))[:800]})
                        r["verdict"] = "refuted"

    # --- errors in the harness itself
    worker_errors = []
    for key, r in results.items():
        if r.get("verdict") == "error":
            worker_errors.append(f"{key}: {json.dumps(r.get('messages'))[:600]}")
    # an isolated worker failure (crash, OOM) is reported as inconclusive; a systematic one is a broken harness
    if worker_errors and len(worker_errors) * 2 > len(results):
        harness_errors.extend(worker_errors)
        tw = r.get("twin")
        if tw is not None and not tw.get("reached") and r.get("verdict") == "confirmed":
            # a confirmed obligation whose reachability twin did not reach the assertion is vacuous
            r["verdict"] = "vacuous"

    # --- known findings: replay witnesses
    kf_lines = []
    kf_report = []
    for f in findings:
        w = f.get("witness")
        if not w:
            continue
        rp = replay(w["harness"], w["params"], w["args"])
        fails = rp.get("ok") and rp.get("holds") is False
        kf_report.append({"id": f["id"], "status": f["status"], "witness_fails": bool(fails), "detail": rp.get("detail", rp.get("error", ""))})
        if f.get("status") == "open":
            if fails:
                kf_lines.append(f"KNOWN-FINDING: property={prop_id} {f['id']}: {f['what']}")
            elif rp.get("ok"):
                print(f"NOTE: known finding {f['id']} no longer reproduces on this tree (its region stays excluded from the search; update known_findings.json)")
            else:
                harness_errors.append(f"known finding {f['id']}: witness replay failed: {rp}")
        else:  # fixed: suppresses nothing -- the witness is one more obligation
            if fails:
                violations.append({"obligation": "fixed-finding:" + f["id"], "harness": w["harness"], "params": w["params"],
                                   "args": w["args"], "detail": "regression of a fixed finding: " + rp.get("detail", "")})
            elif not rp.get("ok"):
                harness_errors.append(f"fixed finding {f['id']}: witness replay failed: {rp}")

    # --- output
    for line in kf_lines:
        print(line)
    vio_paths = []
    if violations:
        rdir = os.path.join(VERIF, "replays", prop_id)
        os.makedirs(rdir, exist_ok=True)
        for i, v in enumerate(violations):
            path = os.path.join(rdir, f"{tier}-{i}.json")
            with open(path, "w") as fh:
                json.dump({"property": prop_id, "engine": "xh", **v}, fh, indent=1)
            vio_paths.append(path)
            print(f"VIOLATION property={prop_id} replay={path}")
            print(f"  obligation={v['obligation']} args={json.dumps(v['args'])} :: {v.get('detail', '')[:500]}")

    counts = {}
    for r in results.values():
        counts[r["verdict"]] = counts.get(r["verdict"], 0) + 1
    confirmed = [k for k, r in results.items() if r["verdict"] == "confirmed"]
    samples = []
    for k, r in list(results.items()):
        o = by_key[k]
        samples.append({"obligation": k, "desc": o.desc, "verdict": r["verdict"], "paths": r.get("paths"),
                        "confirmed_paths": r.get("confirmed_paths"), "seconds": r.get("seconds"),
                        "twin_witness": (r.get("twin") or {}).get("witness")})
    samples.sort(key=lambda s: s["obligation"])
    coverage = {
        "evaluations": sum(int(r.get("paths") or 0) for r in results.values()),
        "distinct_nontrivial": len(confirmed),
        "rule": rule,
        "samples": samples[:400],
        "exhaustive": bool(obls) and len(confirmed) == len(obls),
        "functions_encoded": functions_encoded,
        "bounds": bounds,
        "obligations": len(obls),
        "confirmed": len(confirmed),
        "inconclusive": sum(v for k, v in counts.items() if k in ("inconclusive", "pre_unsat", "vacuous", "error")),
        "refuted": counts.get("refuted", 0),
        "verdict_counts": counts,
        "spurious": spurious,
        "known_findings": kf_report,
        "solver_wall_s": round(sum(float(r.get("seconds") or 0) for r in results.values()), 1),
        "stubs": stubs,
        "harness_errors": harness_errors,
        "worker_errors": worker_errors,
        "skipped_inside_known_finding_region": [{"obligation": o.key, "finding": o.desc["skipped_by_finding"]} for o in skipped],
        "repo_head": _repo_head(),
    }
    if extra_coverage:
        coverage.update(extra_coverage)
    write_evidence(prop_id, tier, seed, "exploration", coverage, assumptions, time.time() - t0, len(violations))
    print(f"[{prop_id}] tier={tier} obligations={len(obls)} {counts} paths={coverage['evaluations']} "
          f"violations={len(violations)} known={len(kf_lines)} harness_errors={len(harness_errors)} wall={time.time() - t0:.0f}s")
    if violations:
        return 1
    if harness_errors:
        for h in harness_errors[:20]:
            print("HARNESS-ERROR:", h[:800])
        return 3
    return 0


def _can_exclude(args: dict) -> bool:
    return True


def _exclude_value(args: dict):
    # harnesses whose only symbolic input is a string `v`/`s`/`h` exclude by that value; others by the full dict
    for k in ("v", "s", "h"):
        if k in args and isinstance(args[k], str):
            return args[k]
    return args


def _repo_head() -> str:
    from props.common import repo_head, repo_dirty
    return repo_head() + ("+dirty" if repo_dirty() else "")
