"""Concrete watchdog search used ONLY to produce a replayable witness when CrossHair paths time out (DESIGN 5/C05):
a loop that spins without calling any counted method cannot be turned into an assertion failure by the step budget, it
shows up as path time-outs.  This enumerates the same bound (holes over SIGMA, len <= maxlen, capped) in the plain
interpreter, each call under an alarm, and prints the first input on which the property function hangs or fails."""
import importlib.util
import itertools
import json
import os
import signal
import sys


class _Timeout(BaseException):
    pass


def _alarm(signum, frame):
    raise _Timeout()


def main():
    mod_path, cap, per_call = sys.argv[1], int(sys.argv[2]), int(sys.argv[3])
    spec = importlib.util.spec_from_file_location("xh_probe_" + os.path.basename(mod_path)[:-3], mod_path)
    mod = importlib.util.module_from_spec(spec)
    sys.modules[spec.name] = mod
    spec.loader.exec_module(mod)
    sigma = mod.SIGMA
    signal.signal(signal.SIGALRM, _alarm)
    n = 0
    out = {"tried": 0, "witness": None}
    for L in range(mod.MINLEN, mod.MAXLEN + 1):
        for tup in itertools.product(sigma, repeat=L):
            h = "".join(tup)
            if not mod.in_bounds(h):
                continue
            n += 1
            if n > cap:
                break
            signal.alarm(per_call)
            try:
                ok = mod.check(h)
                signal.alarm(0)
                if not ok:
                    out["witness"] = {"h": h, "why": "check returned False: " + mod.verdict(h)}
                    break
            except _Timeout:
                out["witness"] = {"h": h, "why": f"did not terminate within {per_call}s"}
                break
            except BaseException as e:
                signal.alarm(0)
                out["witness"] = {"h": h, "why": "raised " + type(e).__name__}
                break
        if out["witness"] or n > cap:
            break
    out["tried"] = n
    sys.stdout.write("\nPROBE " + json.dumps(out) + "\n")


if __name__ == "__main__":
    main()
