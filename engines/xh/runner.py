"""E1 runner: executes obligations (one CrossHair process each) in parallel and replays counterexamples."""
from __future__ import annotations

import concurrent.futures as cf
import json
import os
import subprocess
import sys
import time
from dataclasses import dataclass, field

VERIF = os.path.dirname(os.path.dirname(os.path.dirname(os.path.abspath(__file__))))
PY_XH = os.path.join(VERIF, ".venv", "bin", "python")   # interpreter with CrossHair + z3 + /repo
PY_PLAIN = "/venv/bin/python"                            # the repository's own interpreter (replays)
WORKER = os.path.join(VERIF, "engines", "xh", "worker.py")
REPLAYER = os.path.join(VERIF, "engines", "xh", "replay.py")


@dataclass
class Obl:
    key: str
    harness: str                 # file name under /verif/harness
    params: dict
    desc: dict = field(default_factory=dict)
    cond_timeout: float = 60.0
    path_timeout: float = 10.0
    func: str = "prop"
    twin: str | None = "twin"
    twin_timeout: float = 30.0
    group: str = ""              # obligations with equal group share one twin run


def _run_worker(harness: str, func: str, params: dict, cond_timeout: float, path_timeout: float) -> dict:
    env = dict(os.environ)
    env["XH_PARAMS"] = json.dumps(params)
    env["PYTHONPATH"] = VERIF + (":" + os.environ["VERIF_REPO"] if os.environ.get("VERIF_REPO") else "")
    env.pop("PYTHONHASHSEED", None)
    wall = cond_timeout * 1.6 + 90
    t0 = time.time()
    try:
        p = subprocess.run(
            ["timeout", "-k", "5", str(int(wall)), PY_XH, WORKER, os.path.join(VERIF, "harness", harness), func,
             str(cond_timeout), str(path_timeout)],
            capture_output=True, text=True, env=env, cwd=VERIF,
        )
    except Exception as e:  # pragma: no cover
        return {"verdict": "error", "messages": [repr(e)], "counterexamples": [], "paths": 0, "confirmed_paths": 0,
                "seconds": round(time.time() - t0, 2)}
    for line in reversed(p.stdout.splitlines()):
        if line.startswith("XHRESULT "):
            r = json.loads(line[len("XHRESULT "):])
            return r
    verdict = "inconclusive" if p.returncode in (124, 137) else "error"
    return {"verdict": verdict, "messages": [{"state": "NO_RESULT", "rc": p.returncode, "stderr": p.stderr[-1500:]}],
            "counterexamples": [], "paths": 0, "confirmed_paths": 0, "seconds": round(time.time() - t0, 2)}


def replay(harness: str, params: dict, args: dict, func: str = "check", timeout: int = 120) -> dict:
    """Re-executes the property on concrete arguments in the repository's own interpreter (no CrossHair)."""
    env = dict(os.environ)
    env["XH_PARAMS"] = json.dumps(params)
    env["PYTHONPATH"] = VERIF + ":" + os.environ.get("VERIF_REPO", "/repo")
    try:
        p = subprocess.run(
            ["timeout", "-k", "5", str(timeout), PY_PLAIN, REPLAYER, os.path.join(VERIF, "harness", harness), func, json.dumps(args)],
            capture_output=True, text=True, env=env, cwd=VERIF,
        )
    except Exception as e:  # pragma: no cover
        return {"ok": False, "error": repr(e)}
    for line in reversed(p.stdout.splitlines()):
        if line.startswith("REPLAY "):
            return json.loads(line[len("REPLAY "):])
    if p.returncode in (124, 137):
        return {"ok": True, "holds": False, "in_bounds": True, "detail": f"replay did not terminate within {timeout}s", "timeout": True}
    return {"ok": False, "error": "no result", "rc": p.returncode, "stderr": p.stderr[-1500:]}


def run_obligations(obls: list[Obl], jobs: int = 16, log=None) -> dict[str, dict]:
    """Runs props and (one per group) twins. Returns key -> result dict."""
    results: dict[str, dict] = {}
    twin_of: dict[str, str] = {}
    tasks = []
    seen_groups = {}
    for o in obls:
        tasks.append(("prop", o))
        if o.twin:
            g = o.group or o.key
            if g not in seen_groups:
                seen_groups[g] = o.key
                tasks.append(("twin", o))
            twin_of[o.key] = seen_groups[g]
    # longest first
    tasks.sort(key=lambda t: -(t[1].cond_timeout if t[0] == "prop" else t[1].twin_timeout))
    twins: dict[str, dict] = {}

    def work(task):
        kind, o = task
        if kind == "prop":
            return kind, o, _run_worker(o.harness, o.func, o.params, o.cond_timeout, o.path_timeout)
        return kind, o, _run_worker(o.harness, o.twin, o.params, o.twin_timeout, o.path_timeout)

    with cf.ThreadPoolExecutor(max_workers=jobs) as ex:
        for kind, o, r in ex.map(work, tasks):
            if kind == "prop":
                results[o.key] = r
            else:
                twins[o.key] = r
            if log:
                log(kind, o, r)
    for o in obls:
        r = results[o.key]
        if o.twin:
            tw = twins.get(twin_of[o.key], {})
            reached = tw.get("verdict") == "refuted" and bool(tw.get("counterexamples"))
            r["twin"] = {"reached": reached, "verdict": tw.get("verdict"),
                         "witness": (tw.get("counterexamples") or [None])[0], "seconds": tw.get("seconds")}
        else:
            r["twin"] = None
    return results
