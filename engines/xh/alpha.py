"""Alphabet-exact models of the Unicode predicates of `str` for CrossHair (E1 stub 4).

CrossHair decides str.isspace/isalnum/isidentifier/upper/... on a symbolic character with z3 functions
that encode the whole Unicode database; one such query costs seconds (measured: 8 s per path through
the tokenizer).  When the harness's pre: restricts every symbolic character to a finite alphabet SIGMA,
each predicate is *exactly* `c in {m in SIGMA : pred(m)}` -- a handful of integer equalities.  install()
replaces the methods on CrossHair's symbolic str class by these tables, computed from CPython's own
answers for every member of SIGMA at import time.  Sound and complete for strings over SIGMA only;
harnesses that use it state SIGMA as part of their bound.
"""
from __future__ import annotations


def install(sigma: str) -> None:
    try:
        from crosshair.libimpl import builtinslib as bl
    except ImportError:  # plain interpreter (replay): nothing to do
        return
    from crosshair.tracers import NoTracing

    cls = bl.AnySymbolicStr
    sigma = "".join(sorted(set(sigma)))

    def concrete(ch):
        """The character as a plain str when it is fully concrete (a literal piece of a mixed string), else None.
        Concrete characters get CPython's own answer whatever SIGMA is; only symbolic ones use the tables."""
        with NoTracing():
            if type(ch) is str:
                return ch
            try:
                cps = ch._codepoints
                if len(cps) == 1:
                    cp = cps[0]
                    if type(cp) is int:
                        return chr(cp)
            except BaseException:
                return None
            return None

    def members(pred):
        return [c for c in sigma if pred(c)]

    def make_all(pred, ret_if_empty=False):
        ms = members(pred)

        def fn(self):
            if len(self) == 0:
                return ret_if_empty
            for ch in self:
                c = concrete(ch)
                if c is not None:
                    if not pred(c):
                        return False
                    continue
                hit = False
                for m in ms:
                    if ch == m:
                        hit = True
                        break
                if not hit:
                    return False
            return True

        return fn

    cls.isspace = make_all(str.isspace)
    cls.isalnum = make_all(str.isalnum)
    cls.isalpha = make_all(str.isalpha)
    cls.isdigit = make_all(str.isdigit)
    cls.isdecimal = make_all(str.isdecimal)
    cls.isnumeric = make_all(str.isnumeric)
    cls.isprintable = make_all(str.isprintable, ret_if_empty=True)
    cls.isascii = make_all(str.isascii, ret_if_empty=True)

    id_start = members(lambda c: c.isidentifier())
    id_cont = members(lambda c: ("a" + c).isidentifier())

    def isidentifier(self):
        if len(self) == 0:
            return False
        first = True
        for ch in self:
            ms = id_start if first else id_cont
            c = concrete(ch)
            if c is not None:
                if not (c.isidentifier() if first else ("a" + c).isidentifier()):
                    return False
                first = False
                continue
            first = False
            hit = False
            for m in ms:
                if ch == m:
                    hit = True
                    break
            if not hit:
                return False
        return True

    cls.isidentifier = isidentifier

    def make_map(fn):
        changed = [(c, fn(c)) for c in sigma if fn(c) != c]

        def mapper(self):
            out = ""
            for ch in self:
                cc = concrete(ch)
                if cc is not None:
                    out = out + fn(cc)
                    continue
                rep = None
                for c, r in changed:
                    if ch == c:
                        rep = r
                        break
                out = out + (rep if rep is not None else ch)
            return out

        return mapper

    cls.upper = make_map(str.upper)
    cls.lower = make_map(str.lower)

    space = members(str.isspace)

    def strip(self, chars=None):
        if chars is not None:
            cs = list(chars)
        else:
            cs = space
        def strippable(ch):
            c = concrete(ch)
            if c is not None:
                return (c in chars) if chars is not None else c.isspace()
            for x in cs:
                if ch == x:
                    return True
            return False

        i, j = 0, len(self)
        while i < j and strippable(self[i]):
            i += 1
        while j > i and strippable(self[j - 1]):
            j -= 1
        return self[i:j]

    cls.strip = strip


def install_translate() -> None:
    """str.translate on a symbolic string with a *concrete* table (dict int -> int | str | None): per character, the table
    entry when the character equals one of the table's keys, else the character itself.  Exact for dict tables."""
    try:
        from crosshair.libimpl import builtinslib as bl
    except ImportError:
        return

    def translate(self, table):
        items = list(table.items())
        out = ""
        for ch in self:
            rep = ch
            for k, v in items:
                if ch == chr(k):
                    rep = "" if v is None else (chr(v) if isinstance(v, int) else v)
                    break
            out = out + rep
        return out

    bl.AnySymbolicStr.translate = translate
