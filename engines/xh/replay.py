"""Concrete replay: imports a harness module in a plain interpreter (no CrossHair) and calls its
property function on concrete arguments.  Prints `REPLAY {json}`.

A harness may define `replay(**args) -> (holds: bool, detail: str)`; otherwise `check(**args) -> bool`.
"""
import importlib.util
import json
import os
import sys
import traceback


def main():
    mod_path, func, args = sys.argv[1], sys.argv[2], json.loads(sys.argv[3])
    out = {"ok": True}
    try:
        spec = importlib.util.spec_from_file_location("xh_replay_" + os.path.basename(mod_path)[:-3], mod_path)
        mod = importlib.util.module_from_spec(spec)
        sys.modules[spec.name] = mod
        spec.loader.exec_module(mod)
        if hasattr(mod, "in_bounds"):
            try:
                out["in_bounds"] = bool(mod.in_bounds(**args))
            except Exception:
                out["in_bounds"] = None
        f = getattr(mod, "replay", None) if func == "check" else None
        if f is not None:
            holds, detail = f(**args)
        else:
            try:
                holds, detail = bool(getattr(mod, func)(**args)), ""
            except Exception as e:
                holds, detail = False, "raised " + "".join(traceback.format_exception_only(type(e), e)).strip()
        if not holds and not detail and hasattr(mod, "explain"):
            try:
                detail = str(mod.explain(**args))
            except Exception as e:
                detail = "explain failed: " + repr(e)
        out["holds"] = bool(holds)
        out["detail"] = detail
    except BaseException as e:
        out = {"ok": False, "error": "".join(traceback.format_exception_only(type(e), e)).strip(), "tb": traceback.format_exc()[-1500:]}
    sys.stdout.write("\nREPLAY " + json.dumps(out) + "\n")


if __name__ == "__main__":
    main()
