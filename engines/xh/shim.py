"""Shims that every E1 harness installs before tracing starts (DESIGN §3, E1 stubs).

1. Expression.__hash__ / Dialect.__hash__ run under NoTracing(): CrossHair replaces the builtin
   hash() by a contracted function it may short-circuit to an arbitrary int; Expression.__eq__ *is*
   hash equality, so under tracing equal trees would compare unequal.  No harness hashes a tree that
   holds a symbolic value.
"""
from crosshair.tracers import NoTracing
from sqlglot.expressions.core import Expression
from sqlglot.dialects.dialect import Dialect

if not getattr(Expression, "_verif_shim", False):
    _orig_hash = Expression.__hash__

    def _native_hash(self):
        with NoTracing():
            return _orig_hash(self)

    Expression.__hash__ = _native_hash
    Expression._verif_shim = True

if not getattr(Dialect, "_verif_shim", False):
    _orig_dhash = Dialect.__hash__

    def _native_dhash(self):
        with NoTracing():
            return _orig_dhash(self)

    Dialect.__hash__ = _native_dhash
    Dialect._verif_shim = True


# 2. camel_to_snake_case (a regex substitution on *class names*, always concrete) runs under NoTracing():
#    CrossHair 0.0.110's own regex engine, which it substitutes for `re` even on concrete strings, drops a character
#    ("CurrentTimestamp" -> "CURRENT_IMESTAMP"; measured), which made generated SQL differ under tracing only.
import sqlglot.helper as _helper

if not getattr(_helper, "_verif_shim", False):
    _orig_c2s = _helper.camel_to_snake_case

    def _native_c2s(name):
        with NoTracing():
            return _orig_c2s(name)

    import sys as _sys

    for _m in list(_sys.modules.values()):
        if _m is not None and getattr(_m, "__name__", "").startswith("sqlglot") and getattr(_m, "camel_to_snake_case", None) is _orig_c2s:
            setattr(_m, "camel_to_snake_case", _native_c2s)
    _helper._verif_shim = True
