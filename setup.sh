#!/bin/sh
# Builds /verif/.venv offline: a venv from /venv's interpreter that sees /venv's site-packages
# (duckdb, pytest, ...) and /repo's *working tree* through a .pth file, plus crosshair-tool and
# z3-solver from the offline wheelhouse.  Idempotent; every check calls it (cheap when done).
set -e
HERE="$(cd "$(dirname "$0")" && pwd)"
V="$HERE/.venv"
STAMP="$V/.ok3"
if [ ! -f "$STAMP" ]; then
  (
    # serialise concurrent first-time set-ups (16 checks may start at once)
    exec 9>"$HERE/.venv.lock"
    flock 9
    if [ ! -f "$STAMP" ]; then
      rm -rf "$V"
      /venv/bin/python -m venv "$V"
      SP="$V/lib/python3.12/site-packages"
      printf '%s\n%s\n' "/venv/lib/python3.12/site-packages" "/repo" > "$SP/verif_overlay.pth"
      PIP_NO_INDEX=1 "$V/bin/pip" install -q --no-index --find-links /opt/veriftools/wheels \
          crosshair-tool z3-solver >/dev/null
      "$V/bin/python" -c "import crosshair, z3, sqlglot, sys; assert sqlglot.__file__.startswith('/repo/'), sqlglot.__file__"
      touch "$STAMP"
    fi
  )
fi
exit 0
