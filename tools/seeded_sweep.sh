#!/bin/sh
# Applies every seeded change under /verif/seeded to /repo in turn, runs the quick check of the property it breaks and undoes
# the change.  Prints one line per change: exit code (1 = caught) and the first VIOLATION line.  /repo must be clean.
# usage: tools/seeded_sweep.sh [seed] [tier]
SEED="${1:-0}"; TIER="${2:-quick}"
cd /verif || exit 3
if [ -n "$(git -C /repo status --porcelain --untracked-files=no)" ]; then echo "/repo is not clean"; exit 3; fi
for d in seeded/*/; do
  id=$(basename "$d")
  prop=$(python3 -c "import json;print(json.load(open('$d/meta.json'))['property'])")
  git -C /repo apply "/verif/$d/patch.diff" || { echo "$id: patch does not apply"; continue; }
  t0=$(date +%s)
  ./vcheck "$prop" --tier "$TIER" --seed "$SEED" > "/tmp/seeded_$id.log" 2>&1; rc=$?
  git -C /repo checkout -- .
  t1=$(date +%s)
  echo "$id property=$prop seed=$SEED rc=$rc wall=$((t1-t0))s :: $(grep -m1 '^VIOLATION' /tmp/seeded_$id.log | cut -c1-120)"
done
