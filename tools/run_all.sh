#!/bin/sh
# usage: tools/run_all.sh [tier] [seed]  -- runs every registered check once, prints exit code and wall time
TIER="${1:-quick}"; SEED="${2:-0}"
cd /verif || exit 3
for p in $(python3 -c "import json;print(' '.join(c['property_id'] for c in json.load(open('MANIFEST.json'))['checks']))"); do
  t0=$(date +%s)
  ./vcheck "$p" --tier "$TIER" --seed "$SEED" > "/tmp/runall_$p.log" 2>&1; rc=$?
  t1=$(date +%s)
  echo "$p tier=$TIER seed=$SEED rc=$rc wall=$((t1-t0))s :: $(grep -c '^KNOWN-FINDING' /tmp/runall_$p.log) known; $(tail -1 /tmp/runall_$p.log | cut -c1-160)"
done
