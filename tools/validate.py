import glob
import json
import sys

import jsonschema

jsonschema.validate(json.load(open('/verif/MANIFEST.json')), json.load(open('/root/.vp/MANIFEST.schema.json')))
print("manifest ok")
schema = json.load(open('/root/.vp/EVIDENCE.schema.json'))
bad = 0
for f in sorted(glob.glob('/verif/evidence/*.json')):
    try:
        jsonschema.validate(json.load(open(f)), schema)
        print("ok", f)
    except jsonschema.ValidationError as e:
        bad += 1
        print("INVALID", f, "::", e.message, "at", "/".join(str(x) for x in e.absolute_path))
sys.exit(1 if bad else 0)
