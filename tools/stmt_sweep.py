"""Collection sweep for the statement-with-a-hole obligations: explores EVERY context of props/stmtctx.py in mode "both"
(error family + round-trip fixpoint), replays each counterexample, excludes it and searches on, so that all violations
within the bound are known before the quick/thorough tiers (which explore subsets of the same contexts) are registered.
Writes /tmp/stmt_sweep.json.  Not a registered check."""
import json
import os
import sys

sys.path.insert(0, os.path.dirname(os.path.dirname(os.path.abspath(__file__))))
from engines.xh.runner import Obl, replay, run_obligations  # noqa: E402
from props import stmtctx  # noqa: E402

ct = float(sys.argv[1]) if len(sys.argv) > 1 else 150
rounds = int(sys.argv[2]) if len(sys.argv) > 2 else 5
ctxs = stmtctx.select("thorough", 0, 0)
only = set(json.load(open(sys.argv[3]))) if len(sys.argv) > 3 else None
obls = {}
for d, sql, name, pre, post in ctxs:
    si = [c[1] for c in stmtctx.CORPUS].index(sql)
    key = f"{d or 'base'}:{si}:{name}"
    if only is not None and key not in only:
        continue
    obls[key] = Obl(key=key, harness="h_stmt.py", params={"dialect": d, "pre": pre, "post": post, "minlen": 0, "maxlen": 1, "mode": "both", "exclude_number_dot": True},
                    cond_timeout=ct, path_timeout=60, twin=None)
findings, spurious, final = [], [], {}
todo = list(obls.values())
for rnd in range(rounds):
    if not todo:
        break
    print(f"round {rnd}: {len(todo)} obligations", flush=True)
    res = run_obligations(todo, jobs=16, log=lambda k, o, r: print(f"  {o.key:40s} {r['verdict']:12s} paths={r.get('paths')} {r.get('seconds')}s", flush=True))
    nxt = []
    for o in todo:
        r = res[o.key]
        final[o.key] = r["verdict"]
        if r["verdict"] == "refuted" and r.get("counterexamples"):
            args = r["counterexamples"][-1]
            rp = replay(o.harness, o.params, args)
            rec = {"key": o.key, "dialect": o.params["dialect"], "pre": o.params["pre"], "post": o.params["post"], "h": args.get("h"), "detail": rp.get("detail")}
            if rp.get("ok") and rp.get("holds") is False:
                findings.append(rec)
                print("  FINDING", json.dumps(rec)[:400], flush=True)
            else:
                spurious.append(rec)
            o.params.setdefault("exclude_exact", []).append(args.get("h"))
            nxt.append(o)
    todo = nxt
    json.dump({"findings": findings, "spurious": spurious, "final": final}, open(os.environ.get("SWEEP_OUT", "/tmp/stmt_sweep.json"), "w"), indent=1)
print("done", len(findings), "findings", len(spurious), "spurious", {v: list(final.values()).count(v) for v in set(final.values())})
