"""Context templates `pre ++ hole ++ post` for the tokenizer harness, generated from a dialect's own tables."""
from __future__ import annotations

from props import common

POSITION_TABLES = None  # all tables except the keyword ones; computed lazily


def families() -> list[list[str]]:
    tabs = list(common.core_tables("").keys())
    only = tuple(t for t in tabs if t not in {"keywords", "keyword_trie"})
    return common.group_dialects(lambda d: common.tok_signature(d, only))


def groups() -> list[list[str]]:
    return common.group_dialects(common.tok_signature)


def contexts(d: str) -> list[tuple[str, str, str, bool]]:
    """-> [(name, pre, post, generic)] ; generic contexts exist for every dialect."""
    from sqlglot.tokens import TokenType

    c = common.core_tables(d)
    out: list[tuple[str, str, str, bool]] = [
        ("empty", "", "", True),
        ("between", "a ", " b", True),
        ("glued", "a", "b", False),
        ("after-newline", "a\n", " b", False),
        ("number", "1", "2 x", False),
        ("number-suffix", "1", " x", False),
        ("number-exp", "1e", "2 x", False),
    ]
    for i, (qs, qe) in enumerate(c["quotes"].items()):
        out.append((f"quote[{qs}]", qs + "a", "b" + qe + " c", i == 0))
        # the literal already spans a line: a hole that adds another line break exercises first-vs-last break bookkeeping
        out.append((f"quote-multiline[{qs}]", qs + "a\nb", "c" + qe + " d", i == 0))
    for i, (s, e) in enumerate(c["identifiers"].items()):
        out.append((f"ident[{s}]", s + "a", "b" + e + " c", False))
        if i == 0:
            out.append((f"ident-multiline[{s}]", s + "a\nb", "c" + e + " d", False))
    for s, e in c["comments"].items():
        if e:
            out.append((f"comment[{s}]", "x " + s + " a", "b " + e + " y", False))
            if s == "/*":
                out.append((f"comment-multiline[{s}]", "x " + s + " a\nb", "c " + e + " y", False))
        else:
            out.append((f"comment[{s}]", "x " + s + " a", "b\ny", False))
    seen_types = set()
    for s, (e, tt) in c["format_strings"].items():
        # one context per token type and delimiter length is enough to reach each scanning branch
        k = (tt, len(e), s[:1].isalpha())
        if k in seen_types:
            continue
        seen_types.add(k)
        if tt == TokenType.HEX_STRING:
            out.append((f"fmt[{s}]", s + "0", "1" + e + " c", False))
        elif tt == TokenType.BIT_STRING:
            out.append((f"fmt[{s}]", s + "0", "1" + e + " c", False))
        elif tt == TokenType.HEREDOC_STRING:
            out.append((f"heredoc[{s}]", s + e + "a", "b" + s + e + " c", False))
            out.append((f"heredoc-tag[{s}]", s + "t", e + "a" + s + "t" + e + " c", False))
            # a would-be tag in the middle of a statement: a hole that makes it invalid (white-space, line break, digit)
            # forces the scanner to step back
            out.append((f"heredoc-tag-mid[{s}]", "x " + s + "a", "b" + e + " y", False))
        else:
            out.append((f"fmt[{s}]", s + "a", "b" + e + " c", False))
    # end of input right after the hole: every scanning loop has its own end-of-input branch
    out.append(("eof-number-exp", "1e", "", True))
    out.append(("eof-number", "1.", "", False))
    q0s, q0e = next(iter(c["quotes"].items()))
    out.append((f"eof-quote[{q0s}]", q0s + "a", "", True))
    i0s, i0e = next(iter(c["identifiers"].items()))
    out.append((f"eof-ident[{i0s}]", i0s + "a", "", False))
    for s_, e_ in c["comments"].items():
        if e_:
            out.append((f"eof-comment[{s_}]", "x " + s_ + " a", "", s_ == "/*"))
            break
    out.append(("eof-var", "a", "", False))
    kw = sorted(k for k in c["keywords"] if " " in k and all(w.isalpha() for w in k.split(" ")))
    if kw:
        pick = "GROUP BY" if "GROUP BY" in kw else kw[0]
        a, b = pick.split(" ", 1)
        out.append((f"multiword[{pick}]", a, b + " x", True))
    cmds = sorted(k for k, v in c["keywords"].items() if v in c["commands"] and k.isalpha())
    if cmds:
        pick = "SHOW" if "SHOW" in cmds else cmds[0]
        out.append((f"command[{pick}]", pick + " ", " x", False))
        out.append((f"command-semi[{pick}]", pick + " a", "b; c", False))
    if c["hint_start"]:
        hs = c["hint_start"]
        he = c["comments"].get(hs)
        if he:
            out.append((f"hint[{hs}]", "SELECT " + hs + " a", "b " + he + " c", False))
    return out
