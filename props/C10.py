"""C10 (partial: the identifier-normalisation clause) -- E1, harness/h_norm.py.

Claimed: "Identifier normalisation is idempotent and never alters an identifier that is case-sensitive under the
dialect's rules (quoted ones, except in dialects that fold quoted names)."
Not claimed: everything about qualify() (tables aliased, columns resolved, stars expanded, qualify idempotent); see DESIGN 9.6.
"""
from __future__ import annotations

import argparse
import os
import sys

from engines.xh.driver import run_e1
from engines.xh.runner import Obl
from props.common import all_dialects

PROP = "C10"

# dialect settings strings that override the strategy: the dispatch on the strategy must hold for every pairing
_SETTINGS = [
    "snowflake, normalization_strategy = case_sensitive",
    "mysql, normalization_strategy = case_insensitive",
    "postgres, normalization_strategy = uppercase",
    "duckdb, normalization_strategy = lowercase",
    "bigquery, normalization_strategy = case_sensitive",
    "oracle, normalization_strategy = case_insensitive_uppercase",
]


def obligations(tier: str, seed: int):
    quick = tier == "quick"
    maxlen = 3 if quick else 4
    sigma = "aAzZ1_ $éÉß" if quick else "aAbzZ19_ $.-éÉßǅ"
    ct = 300 if quick else 1500
    obls = []
    for d in all_dialects() + _SETTINGS:
        key = f"norm:{d or 'base'}"
        obls.append(Obl(key=key, harness="h_norm.py", params={"dialect": d, "maxlen": maxlen, "sigma": sigma},
                        cond_timeout=ct, path_timeout=30, twin_timeout=60,
                        desc={"dialect": d or "base", "symbolic": f"identifier text over {sigma!r} with len <= {maxlen}; quoted flag; "
                              "via in {Dialect.normalize_identifier, normalize_identifiers on a Column, the same with the case_sensitive marker}"},
                        group=key))
    bounds = {
        "text": f"identifier text over the alphabet {sigma!r}, length 0..{maxlen}",
        "flags": "quoted: both; via: 3 entry points",
        "dialects": f"{len(all_dialects())} dialects + {len(_SETTINGS)} strategy overrides given as dialect settings",
        "outside": "longer names, characters outside the alphabet (CPython's full case tables), identifiers inside larger trees where "
                   "BigQuery's table/UDF heuristic applies, normalize_identifiers(str) (goes through the parser); every clause of C10 about qualify()",
    }
    return obls, bounds


def main(argv=None) -> int:
    ap = argparse.ArgumentParser()
    ap.add_argument("--tier", default=os.environ.get("VERIF_TIER", "quick"))
    ap.add_argument("--seed", type=int, default=int(os.environ.get("VERIF_SEED", "0") or 0))
    ap.add_argument("--only", default=None)
    a = ap.parse_args(argv)
    obls, bounds = obligations(a.tier, a.seed)
    if a.only:
        obls = [o for o in obls if a.only in o.key]
    return run_e1(
        PROP, a.tier, a.seed, obls,
        functions_encoded=["sqlglot.dialects.dialect.Dialect.normalize_identifier (and BigQuery's override)",
                           "sqlglot.optimizer.normalize_identifiers.normalize_identifiers (walk, case_sensitive marker)",
                           "sqlglot.expressions.core.Expression.set / walk / meta_get as reached"],
        stubs=["str.upper/lower exact on the alphabet (engines/xh/alpha.py)", "str.translate with a concrete dict table, per character (alpha.install_translate)",
               "Expression.__hash__ under NoTracing (engines/xh/shim.py)"],
        assumptions=["CrossHair/z3 sound; counterexamples replayed in /venv/bin/python",
                     "'case-sensitive under the dialect's rules' is read from the dialect's normalization_strategy attribute: CASE_SENSITIVE never folds, "
                     "CASE_INSENSITIVE and CASE_INSENSITIVE_UPPERCASE fold quoted names, the others fold unquoted names only"],
        rule="one obligation per dialect (or dialect + strategy override); identifier text, quoted flag and entry point symbolic; "
             "non-trivial = Confirmed over all paths and the twin reached the assertion",
        bounds=bounds,
    )


if __name__ == "__main__":
    sys.exit(main())
