"""C07 -- formatting and generator options never change the meaning of the SQL (E1, DESIGN §5)."""
from __future__ import annotations

import argparse
import ast
import glob
import json
import os
import random
import subprocess
import sys

from engines.xh.driver import run_e1
from engines.xh.runner import Obl, PY_PLAIN, VERIF

PROP = "C07"


# Statements written for the mechanisms the property names and the fixtures hardly contain: multi-line string literals and
# quoted identifiers (the line-break sentinel protects them from re-indentation) inside constructs that pretty printing wraps
# and indents, with comments next to them.  Always part of the corpus, in both tiers.
_STRESS = [
    ("", "SELECT x FROM (SELECT 'l1\nl2' AS x, \"c\nd\" AS y FROM t WHERE z IN ('p\n\nq', 'r')) AS t"),
    ("", "WITH c AS (SELECT 'a\n  b' AS s /* note */ FROM t) SELECT s, EXISTS(SELECT 1 FROM u WHERE u.v = '\n') AS e FROM c"),
    ("postgres", "SELECT CASE WHEN a = 'x\ny' THEN (SELECT MAX(b) FROM t WHERE c = 'u\nv') END AS r FROM s /* tail */"),
    ("duckdb", "SELECT [1, 2], {'k': 'v\nw'}, COALESCE(a, 'n\n') FROM (SELECT a FROM t UNION ALL SELECT 'm\nn') AS q"),
]


def _fixture_statements() -> list[tuple[str, str]]:
    out = []
    for name in ("identity.sql",):
        try:
            for line in open(f"/repo/tests/fixtures/{name}"):
                line = line.strip()
                if line and not line.startswith("--"):
                    out.append(("", line))
        except OSError:
            pass
    try:
        text = open("/repo/tests/fixtures/pretty.sql").read()
        chunks = [c.strip() for c in text.split(";\n")]
        chunks = [c for c in chunks if c]
        for i in range(0, len(chunks) - 1, 2):
            stmt = "\n".join(l for l in chunks[i].splitlines() if not l.startswith("#"))
            out.append(("", stmt))
    except OSError:
        pass
    return out


def _dialect_statements(per_dialect: int, rnd: random.Random) -> list[tuple[str, str]]:
    out = []
    for path in sorted(glob.glob("/repo/tests/dialects/test_*.py")):
        d = os.path.basename(path)[5:-3]
        try:
            tree = ast.parse(open(path).read())
        except Exception:
            continue
        strs = []
        for node in ast.walk(tree):
            if isinstance(node, ast.Call) and getattr(node.func, "attr", "") == "validate_identity" and node.args:
                a0 = node.args[0]
                if isinstance(a0, ast.Constant) and isinstance(a0.value, str) and len(node.args) == 1 and not node.keywords:
                    strs.append(a0.value)
        rnd.shuffle(strs)
        out.extend((d, s) for s in strs[: per_dialect * 4])
    return out


def _greedy_cover(stmts: list[tuple[str, str]], n: int) -> list[tuple[str, str]]:
    """Orders candidate statements so that each next one adds the most node classes / argument keys not seen so far
    (the generator has one method per node class, each with its own pretty branch): a small corpus then reaches many
    more *_sql methods than a random draw.  Ties keep the seed-shuffled order."""
    import sqlglot
    from sqlglot import exp

    feats = []
    for d, sql in stmts:
        try:
            tree = sqlglot.parse_one(sql, read=d or None)
        except Exception:
            continue
        f = set()
        for node in tree.walk():
            f.add(type(node).__name__)
            for k, v in node.args.items():
                if v not in (None, [], False):
                    f.add(type(node).__name__ + "." + k)
            if node.comments:
                f.add("comment:" + type(node).__name__)
        feats.append(((d, sql), f))
    chosen, seen = [], set()
    pool = list(feats)
    while pool and len(chosen) < n:
        best_i, best_gain = 0, -1
        for i, (_st, f) in enumerate(pool[:400]):
            gain = len(f - seen)
            if gain > best_gain:
                best_i, best_gain = i, gain
        st, f = pool.pop(best_i)
        chosen.append(st)
        seen |= f
    return chosen


_VET = r'''
import json, os, sys, importlib.util
cands = json.load(sys.stdin)
res = []
for d, sql in cands:
    os.environ["XH_PARAMS"] = json.dumps({"dialect": d, "sql": sql})
    try:
        spec = importlib.util.spec_from_file_location("h_opts_vet", "/verif/harness/h_opts.py")
        m = importlib.util.module_from_spec(spec); spec.loader.exec_module(m)
        n_nodes = sum(1 for _ in m.TREE.walk())
        if m.TREE is None or n_nodes > 110 or n_nodes < 4 or len(m.D.parse(m.DEFAULT_SQL)) != 1:
            res.append([d, sql, "skip", ""]); continue
        if m.D.parse(m.DEFAULT_SQL)[0] != m.TREE:
            res.append([d, sql, "skip", "default output is not a fixpoint (C01's business)"]); continue
        verdict, detail = "ok", ""
        probes = [dict(w=80, pad=2, indent=2, leading_comma=False, comments=True), dict(w=1, pad=0, indent=4, leading_comma=True, comments=False),
                  dict(pretty=True, leading_comma=False, comments=True, identify=1, normfn=1), dict(pretty=False, leading_comma=False, comments=False, identify=2, normfn=2)]
        for kw in probes:
            if not m.check(**kw):
                holds, det = m.replay(**kw)
                if holds:
                    verdict, detail = "filter", det
                else:
                    verdict, detail = "violation", json.dumps({"args": kw, "detail": det}); break
        res.append([d, sql, verdict, detail])
    except Exception as e:
        res.append([d, sql, "skip", type(e).__name__])
print("VET " + json.dumps(res))
'''


def vet(cands: list[tuple[str, str]]) -> list[list]:
    """Concrete pre-pass in the plain interpreter: keeps statements on which the token filter agrees with the property's
    criterion for four probe settings; reports genuine violations found on the way (not the deciding step)."""
    env = dict(os.environ, PYTHONPATH=VERIF + ":" + os.environ.get("VERIF_REPO", "/repo"))
    p = subprocess.run([PY_PLAIN, "-c", _VET], input=json.dumps(cands), capture_output=True, text=True, env=env, cwd=VERIF)
    for line in p.stdout.splitlines():
        if line.startswith("VET "):
            return json.loads(line[4:])
    raise RuntimeError("vet failed: " + p.stderr[-800:])


def obligations(tier: str, seed: int):
    rnd = random.Random(seed)
    fix = [c for c in _fixture_statements() if len(c[1]) <= 400]
    rnd.shuffle(fix)
    n_fix = 60 if tier == "quick" else 260
    cands = list(_STRESS) + _greedy_cover(fix, n_fix)
    if tier != "quick":
        cands += _dialect_statements(3, rnd)
    vetted = vet(cands)
    pre_violations = []
    corpus = []
    stats = {"candidates": len(cands), "skipped": 0, "filter_incompatible": 0}
    want = 22 if tier == "quick" else 150
    per_dialect = {}
    for d, sql, verdict, detail in vetted:
        if verdict == "ok":
            if d and per_dialect.get(d, 0) >= 3:
                continue
            per_dialect[d] = per_dialect.get(d, 0) + 1
            if len(corpus) < want:
                corpus.append((d, sql))
        elif verdict == "filter":
            stats["filter_incompatible"] += 1
        elif verdict == "violation":
            info = json.loads(detail)
            pre_violations.append({"obligation": f"vet:{d or 'base'}:{sql[:60]}", "harness": "h_opts.py", "params": {"dialect": d, "sql": sql},
                                   "args": info["args"], "detail": info["detail"]})
        else:
            stats["skipped"] += 1
    obls = []
    ct = 240 if tier == "quick" else 900
    for i, (d, sql) in enumerate(corpus):
        for mode in ("layout", "flags"):
            key = f"{mode}:{d or 'base'}:{i}:{sql[:40]}"
            obls.append(Obl(key=key, harness="h_opts.py", params={"dialect": d, "sql": sql, "mode": mode}, func="prop_" + mode,
                            twin="twin_" + mode, cond_timeout=ct, path_timeout=40, twin_timeout=60,
                            desc={"dialect": d or "base", "sql": sql, "mode": mode}, group=key))
    bounds = {
        "layout": "pretty=True; max_text_width: every int >= 0; pad, indent in 0..4; leading_comma, comments: both",
        "flags": "pretty, leading_comma, comments: both; identify in {False, True, 'safe'}; normalize_functions in {'upper','lower',False}",
        "corpus": f"{len(corpus)} statements: {len(_STRESS)} written for the sentinel/comment mechanisms (multi-line literals inside wrapped constructs) + "
                  "statements drawn (seed-rotated, greedy by node-class coverage) from tests/fixtures/identity.sql, pretty.sql"
                  + ("" if tier == "quick" else " and validate_identity strings of tests/dialects/*.py (<=3 per dialect)"),
        "outside": "trees not in the corpus: the input dimension is sampled from fixtures, only the option space is decided",
        **stats,
    }
    return obls, bounds, pre_violations


def main(argv=None) -> int:
    ap = argparse.ArgumentParser()
    ap.add_argument("--tier", default=os.environ.get("VERIF_TIER", "quick"))
    ap.add_argument("--seed", type=int, default=int(os.environ.get("VERIF_SEED", "0") or 0))
    ap.add_argument("--only", default=None)
    a = ap.parse_args(argv)
    obls, bounds, pre_violations = obligations(a.tier, a.seed)
    if a.only:
        obls = [o for o in obls if a.only in o.key]
    return run_e1(
        PROP, a.tier, a.seed, obls,
        functions_encoded=["sqlglot.generator.Generator.__init__/generate/sql and every *_sql / helper reached by the corpus trees "
                           "(sep, seg, indent, wrap, expressions, too_wide, maybe_comment, identifier_sql, normalize_func, ...)",
                           "sqlglot.dialects.dialect.Dialect.can_quote", "TokenizerCore.tokenize (re-lexing the output)"],
        stubs=["Expression.__hash__ under NoTracing (engines/xh/shim.py); trees are parsed concretely at import"],
        assumptions=["CrossHair/z3 sound", "the token-sequence comparison is a filter; every mismatch is settled by re-parsing the output "
                     "in the plain interpreter with the property's own criterion before anything is reported",
                     "a concrete pre-pass on four probe settings drops statements where the filter is stricter than the property"],
        rule="two obligations per corpus statement (layout options / flag options), all option values symbolic; "
             "non-trivial = Confirmed over all paths and twin reached",
        bounds=bounds, pre_violations=pre_violations,
    )


if __name__ == "__main__":
    sys.exit(main())
