"""C04 -- quoting of strings, identifiers and comments is lossless and inescapable (E1, DESIGN §5)."""
from __future__ import annotations

import argparse
import os
import sys

from engines.xh.driver import run_e1
from engines.xh.runner import Obl
from props import common

PROP = "C04"
QUOTE_TABLES = ("quotes", "format_strings", "identifiers", "comments", "string_escapes", "byte_string_escapes",
                "identifier_escapes", "escape_follow_chars", "nested_comments", "hint_start", "unescaped_sequences",
                "string_escapes_allowed_in_raw_strings", "heredoc_tag_is_identifier", "heredoc_string_alternative",
                "var_single_tokens")


def families() -> list[list[str]]:
    """Coarser grouping used to pick where to deepen: equal quoting tables + equal generator quoting code,
    ignoring keyword/single-token tables."""
    import hashlib, json
    from sqlglot.dialects.dialect import Dialect

    def sig(d):
        dd = Dialect.get_or_raise(d or None)
        g = dd.generator_class
        parts = [common.tok_signature(d, QUOTE_TABLES), {m: common._fn_id(g, m) for m in common._GEN_QUOTE_METHODS},
                 {a: common._norm(getattr(dd, a, None)) for a in common._DIALECT_QUOTE_ATTRS}]
        return hashlib.sha1(json.dumps(parts, sort_keys=True).encode()).hexdigest()

    return common.group_dialects(sig)


def _has_backslash_escapes(d: str) -> bool:
    return "\\" in common.core_tables(d)["string_escapes"]


def _rich_escapes(d: str) -> bool:
    return len(common.core_tables(d)["string_escapes"]) > 1


def obligations(tier: str, seed: int) -> tuple[list[Obl], dict]:
    groups = common.group_dialects(common.quote_signature)
    fams = families()
    fam_reps = [f[0] for f in fams]
    obls: list[Obl] = []

    def add(rep, members, kind, minlen, maxlen, pretty, ct, pt=15.0, stmt=None, alphabet=None):
        params = {"dialect": rep, "kind": kind, "minlen": minlen, "maxlen": maxlen, "pretty": pretty}
        if stmt:
            params["stmt"] = stmt
        if alphabet:
            params["alphabet"] = alphabet
        key = f"{kind}{'-' + alphabet if alphabet else ''}:{rep or 'base'}:len{minlen}-{maxlen}:pretty={pretty}"
        obls.append(Obl(key=key, harness="h_quote.py", params=params, cond_timeout=ct, path_timeout=pt,
                        desc={"group": members, "kind": kind, "len": [minlen, maxlen], "pretty": pretty},
                        group=f"{kind}:{rep}:{minlen}:{maxlen}:{pretty}"))

    rot = seed % 4
    if tier == "quick":
        for g in groups:
            add(g[0], g, "string", 0, 1, "both", 90)
        for i, f in enumerate(fams):
            add(f[0], f, "ident", 1, 1, "both", 120)
            add(f[0], f, "raw", 0, 1, "both", 90)
            if i % 2 == seed % 2:
                add(f[0], f, "national", 0, 1, "both", 90)
            if i % 4 == rot or _rich_escapes(f[0]):
                # two-character values reach escape/escape and escape/delimiter interactions; always explored where the
                # tokenizer has more than one string escape character, by rotation elsewhere
                add(f[0], f, "string", 2, 2, False, 150)
            # comment texts range over the dialect's delimiter alphabet (engines/xh/alpha.py): len 1 everywhere, len 2 and
            # len 3 (over the comment markers' own characters) for the base family and one rotating family
            add(f[0], f, "comment", 1, 1, "both", 120, pt=30.0)
            if f[0] == "" or i == 1 + seed % (len(fams) - 1):
                add(f[0], f, "comment", 2, 2, False, 300, pt=30.0)
                add(f[0], f, "comment", 3, 3, False, 400, pt=30.0, alphabet="markers")
    else:
        for g in groups:
            add(g[0], g, "string", 0, 1, "both", 200)
            add(g[0], g, "ident", 1, 1, "both", 300)
            add(g[0], g, "raw", 0, 1, "both", 200)
            add(g[0], g, "national", 0, 1, "both", 200)
        for f in fams:
            for pretty in (False, True):
                add(f[0], f, "string", 2, 2, pretty, 300)
                add(f[0], f, "raw", 2, 2, pretty, 300)
                add(f[0], f, "comment", 1, 2, pretty, 400, pt=30.0)
                add(f[0], f, "comment", 3, 3, pretty, 400, pt=30.0, alphabet="markers")
            add(f[0], f, "ident", 2, 2, False, 300)
            if _has_backslash_escapes(f[0]):
                add(f[0], f, "string", 3, 3, False, 600)
        add("", fams[0], "comment", 4, 4, False, 900, pt=30.0, alphabet="markers")
    bounds = {
        "value": "every Unicode string v with minlen <= len(v) <= maxlen (per obligation, see samples[*].desc.len)",
        "groups": len(groups), "families": len(fams),
        "pretty": "symbolic bool where desc.pretty == 'both'",
        "outside": "len(v) > maxlen; heredoc/dollar-quoted output; byte strings; statements other than `SELECT a` for comments; comment texts outside the dialect's delimiter alphabet (comment-markers alphabet for len >= 3)",
    }
    return obls, bounds


def main(argv=None) -> int:
    ap = argparse.ArgumentParser()
    ap.add_argument("--tier", default=os.environ.get("VERIF_TIER", "quick"))
    ap.add_argument("--seed", type=int, default=int(os.environ.get("VERIF_SEED", "0") or 0))
    ap.add_argument("--only", default=None, help="substring filter on obligation keys (debugging)")
    a = ap.parse_args(argv)
    obls, bounds = obligations(a.tier, a.seed)
    if a.only:
        obls = [o for o in obls if a.only in o.key]
    return run_e1(
        PROP, a.tier, a.seed, obls,
        functions_encoded=[
            "sqlglot.generator.Generator.generate/sql/literal_sql/escape_str/_replace_line_breaks/identifier_sql/"
            "rawstring_sql/national_sql/maybe_comment/sanitize_comment (and dialect overrides)",
            "sqlglot.tokenizer_core.TokenizerCore.tokenize/_scan/_scan_keywords/_scan_string/_extract_string/"
            "_scan_identifier/_scan_comment/_scan_var/_advance/_add",
            "sqlglot.expressions.core.Literal.string / to_identifier / Expression.copy / add_comments",
        ],
        stubs=["none (generators, tokenizer and the base statement are constructed concretely at import time)"],
        assumptions=[
            "CrossHair 0.0.110 models of str/int and z3 5.1 are sound",
            "dialects with identical tokenizer tables and identical generator quoting code behave identically (one representative per group)",
            "counterexamples are replayed in /venv/bin/python without CrossHair before being reported",
        ],
        rule="one obligation per (dialect group representative, literal kind, length bound, pretty); the value v is symbolic "
             "(every code point); non-trivial = obligation ended 'Confirmed over all paths' and its reachability twin "
             "(same pre:, post: False) produced an input that reaches the assertion",
        bounds=bounds,
    )


if __name__ == "__main__":
    sys.exit(main())
