"""C14 (partial) -- error levels change how problems are reported, never what is produced (E1, DESIGN §5)."""
from __future__ import annotations

import argparse
import os
import sys

from engines.xh.driver import run_e1
from engines.xh.runner import Obl

PROP = "C14"


def harvest(nshards: int, per: int, seed: int) -> list[list[str]]:
    """Inputs derived from the working tree's own fixtures: statements of tests/fixtures/identity.sql with the last one or
    two tokens removed, or a token duplicated (truncated prefixes / token-level mutations of valid statements)."""
    import random
    from sqlglot import tokenize

    rnd = random.Random(seed)
    path = "/repo/tests/fixtures/identity.sql"
    try:
        lines = [l.strip() for l in open(path) if l.strip() and not l.startswith("--") and len(l) < 120]
    except OSError:
        return []
    rnd.shuffle(lines)
    out, cur = [], []
    for l in lines:
        try:
            toks = tokenize(l)
        except Exception:
            continue
        if len(toks) < 4:
            continue
        mode = rnd.randrange(3)
        if mode == 0:
            q = l[: toks[-1].start].rstrip()
        elif mode == 1:
            q = l[: toks[-2].start].rstrip()
        else:
            k = rnd.randrange(1, len(toks) - 1)
            q = l[: toks[k].end + 1] + " " + l[toks[k].start:]
        cur.append(q)
        if len(cur) == per:
            out.append(cur)
            cur = []
            if len(out) == nshards:
                break
    return out


GEN_STATEMENTS = [
    ("", "ALTER TABLE t ALTER COLUMN c SET DEFAULT 3"),
    ("", "SELECT a, TRY(b)"),
    ("", "SELECT a, TRY(b), TRY(c), TRY(d), TRY(e)"),
    ("", "SELECT DISTINCT ON (a) a, b FROM t"),
    ("", "SELECT a FROM t FOR UPDATE"),
    ("", "SELECT * FROM t TABLESAMPLE (10 ROWS)"),
    ("", "SELECT a FROM t QUALIFY ROW_NUMBER() OVER (ORDER BY b) = 1"),
    ("", "SELECT a ILIKE ANY (b) FROM t"),
    ("", "SELECT * FROM a NATURAL JOIN b"),
    ("", "CREATE TABLE t (a INT) WITH (x=1)"),
    ("", "DROP TABLE t CASCADE CONSTRAINTS"),
    ("", "SELECT a FROM t ORDER BY a NULLS FIRST"),
    ("", "SELECT JSON_EXTRACT(a, '$.b[*].c')"),
    ("", "SELECT ARRAY_AGG(a ORDER BY b) FROM t"),
    ("", "CREATE TABLE t (a INT COMMENT 'x', b INT GENERATED ALWAYS AS IDENTITY)"),
    ("postgres", "SELECT a FROM t WHERE b ~* 'x'"),
    ("snowflake", "SELECT a:b FROM t AT (TIMESTAMP => x)"),
    ("bigquery", "SELECT * FROM UNNEST([1, 2]) AS x WITH OFFSET"),
    ("duckdb", "SELECT * EXCLUDE (a) REPLACE (b AS c) FROM t"),
    ("mysql", "SELECT a FROM t FORCE INDEX (i)"),
]


def gen_pairs(tier: str, seed: int) -> list[list[list[str]]]:
    """(read dialect, target dialect, statement) triples for which the working tree's generator of the target dialect reports
    an unsupported construct at SOME level (WARN logs, RAISE or IMMEDIATE raises) -- harvested from the code on every run."""
    import logging

    import sqlglot
    from sqlglot.dialects.dialect import Dialects
    from sqlglot.errors import ErrorLevel, UnsupportedError

    class _H(logging.Handler):
        def __init__(self):
            super().__init__()
            self.n = 0

        def emit(self, record):
            self.n += 1

    lg = logging.getLogger("sqlglot")
    h = _H()
    old_level, old_prop = lg.level, lg.propagate
    lg.addHandler(h)
    lg.setLevel(logging.WARNING)
    lg.propagate = False
    per_dialect = 2 if tier == "quick" else 5
    pairs = []
    try:
        for d in Dialects:
            w = d.value
            got = 0
            order = list(GEN_STATEMENTS)
            order = order[seed % len(order):] + order[: seed % len(order)] if tier == "quick" and w != "athena" else order
            for read, sql in order:
                try:
                    tree = sqlglot.parse_one(sql, read=read or None)
                except Exception:
                    continue
                hit = False
                for L in (ErrorLevel.WARN, ErrorLevel.RAISE, ErrorLevel.IMMEDIATE):
                    h.n = 0
                    try:
                        tree.sql(dialect=w or None, unsupported_level=L)
                    except UnsupportedError:
                        hit = True
                    except Exception:
                        hit = False
                        break
                    hit = hit or h.n > 0
                if hit:
                    pairs.append([read, w, sql])
                    got += 1
                    if got >= per_dialect:
                        break
    finally:
        lg.removeHandler(h)
        lg.setLevel(old_level)
        lg.propagate = old_prop
    size = 6
    return [pairs[i:i + size] for i in range(0, len(pairs), size)]


def obligations(tier: str, seed: int):
    t = 200 if tier == "quick" else 600
    units = [
        ("funnel", "Parser.raise_error* ; check_errors", "level in 4, n in 0..4 errors, max_errors in 0..6"),
        ("try", "Parser._try_parse", "level in 4, start index 0..2, retreat, 5 behaviours of the speculative branch (incl. nested speculation)"),
        ("validate", "Parser.validate_expression ; check_errors", "level in 4, 0..2 missing required args, max_errors 0..3"),
        ("gen", "Generator.generate / unsupported", "unsupported_level in 4, k in 0..3 unsupported constructs, max_unsupported 0..4"),
        ("parse", "Parser.parse on a corpus of 16 valid/invalid/multi-statement inputs under all four levels",
         "input index (enumerated corpus), max_errors 1..4; the four runs are related inside one path"),
    ]
    obls = []
    shards = harvest(6 if tier == "quick" else 12, 8 if tier == "quick" else 10, seed)
    for i, shard in enumerate(shards):
        obls.append(Obl(key=f"parse-harvest-{i}", harness="h_errlevel.py", params={"corpus": shard}, func="prop_parse", twin="twin_parse",
                        cond_timeout=t * 2, path_timeout=30,
                        desc={"unit": "Parser.parse under all four levels", "corpus": shard,
                              "symbolic": "input index into this shard, max_errors 1..4"}, group=f"parse-harvest-{i}"))
    for i, shard in enumerate(gen_pairs(tier, seed)):
        obls.append(Obl(key=f"genx-{i}", harness="h_errlevel.py", params={"gpairs": shard}, func="prop_genx", twin="twin_genx",
                        cond_timeout=t * 2, path_timeout=30,
                        desc={"unit": "Generator.generate of the target dialect (sub-generators included) under all four unsupported levels",
                              "pairs": shard, "symbolic": "pair index into this shard, unsupported_level in 4, max_unsupported 0..3"},
                        group=f"genx-{i}"))
    for name, unit, what in units:
        obls.append(Obl(key=name, harness="h_errlevel.py", params={}, func="prop_" + name, twin="twin_" + name,
                        cond_timeout=t if name != "parse" else t * 2, path_timeout=30, desc={"unit": unit, "symbolic": what}))
    bounds = {u[0]: u[2] for u in units}
    bounds["genx"] = ("(read dialect, target dialect, statement) triples harvested from the working tree: up to 2 (quick) / 5 (thorough) "
                      "statements of props/C14.py GEN_STATEMENTS per target dialect for which its generator reports an unsupported construct; "
                      "pair index, unsupported_level in 4 and max_unsupported 0..3 symbolic; text and messages are related to the IGNORE / WARN runs")
    bounds["outside"] = "the four-run relation on arbitrary INPUT TEXT (needs the parser on symbolic text): only the enumerated corpus is covered"
    return obls, bounds


def main(argv=None) -> int:
    ap = argparse.ArgumentParser()
    ap.add_argument("--tier", default=os.environ.get("VERIF_TIER", "quick"))
    ap.add_argument("--seed", type=int, default=int(os.environ.get("VERIF_SEED", "0") or 0))
    ap.add_argument("--only", default=None)
    a = ap.parse_args(argv)
    obls, bounds = obligations(a.tier, a.seed)
    if a.only:
        obls = [o for o in obls if a.only in o.key]
    return run_e1(
        PROP, a.tier, a.seed, obls,
        functions_encoded=["sqlglot.parser.Parser.raise_error/check_errors/validate_expression/_try_parse/_advance/_retreat/parse/_parse",
                           "sqlglot.errors.ParseError.new/concat_messages/merge_errors/highlight_sql",
                           "sqlglot.generator.Generator.generate/unsupported (+ the TRY transform of the first dialect that rejects it)"],
        stubs=["sqlglot.parser.logger and sqlglot.generator.logger replaced by a list-appending object (log records are the observable)",
               "Expression.__hash__ under NoTracing (engines/xh/shim.py)"],
        assumptions=["CrossHair/z3 sound; counterexamples replayed in /venv/bin/python",
                     "small integers (levels, counts, indices) are realised by CrossHair one value at a time (DESIGN 2)"],
        rule="one obligation per unit of the error funnel; all option values in the stated ranges are symbolic; "
             "non-trivial = Confirmed over all paths and the twin reached the assertion",
        bounds=bounds,
    )


if __name__ == "__main__":
    sys.exit(main())
