"""C14 (partial) -- error levels change how problems are reported, never what is produced (E1, DESIGN §5)."""
from __future__ import annotations

import argparse
import os
import sys

from engines.xh.driver import run_e1
from engines.xh.runner import Obl

PROP = "C14"


def harvest(nshards: int, per: int, seed: int) -> list[list[str]]:
    """Inputs derived from the working tree's own fixtures: statements of tests/fixtures/identity.sql with the last one or
    two tokens removed, or a token duplicated (truncated prefixes / token-level mutations of valid statements)."""
    import random
    from sqlglot import tokenize

    rnd = random.Random(seed)
    path = "/repo/tests/fixtures/identity.sql"
    try:
        lines = [l.strip() for l in open(path) if l.strip() and not l.startswith("--") and len(l) < 120]
    except OSError:
        return []
    rnd.shuffle(lines)
    out, cur = [], []
    for l in lines:
        try:
            toks = tokenize(l)
        except Exception:
            continue
        if len(toks) < 4:
            continue
        mode = rnd.randrange(3)
        if mode == 0:
            q = l[: toks[-1].start].rstrip()
        elif mode == 1:
            q = l[: toks[-2].start].rstrip()
        else:
            k = rnd.randrange(1, len(toks) - 1)
            q = l[: toks[k].end + 1] + " " + l[toks[k].start:]
        cur.append(q)
        if len(cur) == per:
            out.append(cur)
            cur = []
            if len(out) == nshards:
                break
    return out


def obligations(tier: str, seed: int):
    t = 200 if tier == "quick" else 600
    units = [
        ("funnel", "Parser.raise_error* ; check_errors", "level in 4, n in 0..4 errors, max_errors in 0..6"),
        ("try", "Parser._try_parse", "level in 4, start index 0..2, retreat, 5 behaviours of the speculative branch (incl. nested speculation)"),
        ("validate", "Parser.validate_expression ; check_errors", "level in 4, 0..2 missing required args, max_errors 0..3"),
        ("gen", "Generator.generate / unsupported", "unsupported_level in 4, k in 0..3 unsupported constructs, max_unsupported 0..4"),
        ("parse", "Parser.parse on a corpus of 16 valid/invalid/multi-statement inputs under all four levels",
         "input index (enumerated corpus), max_errors 1..4; the four runs are related inside one path"),
    ]
    obls = []
    shards = harvest(6 if tier == "quick" else 12, 8 if tier == "quick" else 10, seed)
    for i, shard in enumerate(shards):
        obls.append(Obl(key=f"parse-harvest-{i}", harness="h_errlevel.py", params={"corpus": shard}, func="prop_parse", twin="twin_parse",
                        cond_timeout=t * 2, path_timeout=30,
                        desc={"unit": "Parser.parse under all four levels", "corpus": shard,
                              "symbolic": "input index into this shard, max_errors 1..4"}, group=f"parse-harvest-{i}"))
    for name, unit, what in units:
        obls.append(Obl(key=name, harness="h_errlevel.py", params={}, func="prop_" + name, twin="twin_" + name,
                        cond_timeout=t if name != "parse" else t * 2, path_timeout=30, desc={"unit": unit, "symbolic": what}))
    bounds = {u[0]: u[2] for u in units}
    bounds["outside"] = "the four-run relation on arbitrary INPUT TEXT (needs the parser on symbolic text): only the enumerated corpus is covered"
    return obls, bounds


def main(argv=None) -> int:
    ap = argparse.ArgumentParser()
    ap.add_argument("--tier", default=os.environ.get("VERIF_TIER", "quick"))
    ap.add_argument("--seed", type=int, default=int(os.environ.get("VERIF_SEED", "0") or 0))
    ap.add_argument("--only", default=None)
    a = ap.parse_args(argv)
    obls, bounds = obligations(a.tier, a.seed)
    if a.only:
        obls = [o for o in obls if a.only in o.key]
    return run_e1(
        PROP, a.tier, a.seed, obls,
        functions_encoded=["sqlglot.parser.Parser.raise_error/check_errors/validate_expression/_try_parse/_advance/_retreat/parse/_parse",
                           "sqlglot.errors.ParseError.new/concat_messages/merge_errors/highlight_sql",
                           "sqlglot.generator.Generator.generate/unsupported (+ the TRY transform of the first dialect that rejects it)"],
        stubs=["sqlglot.parser.logger and sqlglot.generator.logger replaced by a list-appending object (log records are the observable)",
               "Expression.__hash__ under NoTracing (engines/xh/shim.py)"],
        assumptions=["CrossHair/z3 sound; counterexamples replayed in /venv/bin/python",
                     "small integers (levels, counts, indices) are realised by CrossHair one value at a time (DESIGN 2)"],
        rule="one obligation per unit of the error funnel; all option values in the stated ranges are symbolic; "
             "non-trivial = Confirmed over all paths and the twin reached the assertion",
        bounds=bounds,
    )


if __name__ == "__main__":
    sys.exit(main())
