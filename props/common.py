"""Facts read from the *imported* sqlglot (the /repo working tree) at run time.

Nothing here is written down by hand: dialect lists, delimiter tables and groups are derived from
the classes, so an edit to /repo changes what the checks encode on the next run.
"""
from __future__ import annotations

import hashlib
import json
import os
import subprocess
import sys

VERIF = os.path.dirname(os.path.dirname(os.path.abspath(__file__)))
REPO = "/repo"

_CORE_STATE = {"sql", "size", "tokens", "_start", "_current", "_line", "_col", "_comments", "_char",
               "_end", "_peek", "_prev_token_line"}


def all_dialects() -> list[str]:
    from sqlglot.dialects.dialect import Dialects

    return [d.value for d in Dialects]


def _norm(x):
    if isinstance(x, dict):
        return sorted((repr(k), _norm(v)) for k, v in x.items())
    if isinstance(x, (set, frozenset)):
        return sorted(repr(i) for i in x)
    if isinstance(x, (list, tuple)):
        return [_norm(i) for i in x]
    return repr(x)


def core_tables(dialect: str) -> dict:
    """Every table the TokenizerCore of `dialect` is configured with (its __slots__ minus state)."""
    from sqlglot.dialects.dialect import Dialect

    core = Dialect.get_or_raise(dialect or None).tokenizer()._core
    out = {}
    for s in type(core).__slots__:
        if s in _CORE_STATE:
            continue
        out[s] = getattr(core, s)
    return out


def tok_signature(dialect: str, only: tuple[str, ...] | None = None) -> str:
    tabs = core_tables(dialect)
    if only:
        tabs = {k: v for k, v in tabs.items() if k in only}
    blob = json.dumps({k: _norm(v) for k, v in sorted(tabs.items())}, sort_keys=True)
    return hashlib.sha1(blob.encode()).hexdigest()[:12]


def _fn_id(cls, name):
    f = getattr(cls, name, None)
    code = getattr(f, "__code__", None)
    if code is None:
        return repr(f)
    return f"{code.co_filename}:{code.co_firstlineno}:{hashlib.sha1(code.co_code).hexdigest()[:8]}"


_GEN_QUOTE_METHODS = ("literal_sql", "escape_str", "_replace_line_breaks", "identifier_sql", "sanitize_comment",
                      "maybe_comment", "rawstring_sql", "bytestring_sql", "national_sql", "unicodestring_sql")
_DIALECT_QUOTE_ATTRS = ("QUOTE_START", "QUOTE_END", "IDENTIFIER_START", "IDENTIFIER_END", "BYTE_START", "BYTE_END",
                        "UNICODE_START", "UNICODE_END", "STRINGS_SUPPORT_ESCAPED_SEQUENCES",
                        "BYTE_STRINGS_SUPPORT_ESCAPED_SEQUENCES", "ESCAPED_SEQUENCES", "UNESCAPED_SEQUENCES",
                        "BYTE_STRING_IS_BYTES_TYPE", "IDENTIFIERS_CAN_START_WITH_DIGIT")


def quote_signature(dialect: str) -> str:
    """Dialects with equal signature have identical tokenizer tables AND identical generator quoting code."""
    from sqlglot.dialects.dialect import Dialect

    d = Dialect.get_or_raise(dialect or None)
    g = d.generator_class
    gen_part = {m: _fn_id(g, m) for m in _GEN_QUOTE_METHODS}
    # TRANSFORMS may override the *_sql methods per class
    from sqlglot import exp

    for cls in (exp.Literal, exp.Identifier, exp.RawString, exp.ByteString, exp.National, exp.UnicodeString):
        tr = g.TRANSFORMS.get(cls)
        gen_part["T:" + cls.__name__] = _fn_id(type("x", (), {"f": tr}), "f") if tr else None
    dia_part = {a: _norm(getattr(d, a, None)) for a in _DIALECT_QUOTE_ATTRS}
    gen_part["RESERVED_KEYWORDS"] = hashlib.sha1(repr(sorted(g.RESERVED_KEYWORDS)).encode()).hexdigest()[:8]
    blob = json.dumps([tok_signature(dialect), gen_part, dia_part], sort_keys=True)
    return hashlib.sha1(blob.encode()).hexdigest()[:12]


def group_dialects(sig_fn) -> list[list[str]]:
    groups: dict[str, list[str]] = {}
    for d in all_dialects():
        groups.setdefault(sig_fn(d), []).append(d)
    return sorted(groups.values(), key=lambda g: g[0])


def repo_head() -> str:
    try:
        return subprocess.run(["git", "-C", REPO, "rev-parse", "--short", "HEAD"], capture_output=True, text=True).stdout.strip()
    except Exception:
        return "?"


def repo_dirty() -> bool:
    try:
        return bool(subprocess.run(["git", "-C", REPO, "status", "--porcelain", "--untracked-files=no"], capture_output=True, text=True).stdout.strip())
    except Exception:
        return False


if __name__ == "__main__":
    for name, fn in (("tok", tok_signature), ("quote", quote_signature)):
        gs = group_dialects(fn)
        print(name, len(gs))
        for g in gs:
            print("   ", g)
