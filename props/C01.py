"""C01 (partial) -- same-dialect round trip is a fixpoint: time-format strings and number lexemes (E1, DESIGN §5)."""
from __future__ import annotations

import argparse
import hashlib
import json
import os
import sys

from engines.xh.driver import run_e1
from engines.xh.runner import Obl
from props import common

PROP = "C01"


def time_groups() -> list[list[str]]:
    from sqlglot.dialects.dialect import Dialect

    def sig(d):
        dd = Dialect.get_or_raise(d or None)
        g = dd.generator_class
        blob = json.dumps([sorted(dd.TIME_MAPPING.items()), sorted(dd.INVERSE_TIME_MAPPING.items()),
                           common._fn_id(g, "format_time")], sort_keys=True)
        return hashlib.sha1(blob.encode()).hexdigest()

    return common.group_dialects(sig)


def number_groups() -> list[list[str]]:
    only = ("numeric_literals", "numbers_can_be_underscore_separated", "numbers_can_have_decimals",
            "identifiers_can_start_with_digit", "has_bit_strings", "has_hex_strings", "single_tokens", "keywords")
    return common.group_dialects(lambda d: common.tok_signature(d, only))


def observable(d: str) -> bool:
    """Does any function of dialect d carry a format literal through TIME_MAPPING (or is it a mapping-free dialect)?"""
    import sqlglot
    from sqlglot import exp
    from sqlglot.dialects.dialect import Dialect

    D = Dialect.get_or_raise(d or None)
    if not D.TIME_MAPPING:
        return True
    probe = next(iter(D.TIME_MAPPING))
    lit = exp.Literal.string(probe).sql(dialect=D)
    for name in sorted(n for n in D.parser_class.FUNCTIONS if n.replace("_", "").isalnum()):
        for q in (f"SELECT {name}(x, {lit})", f"SELECT {name}({lit}, x)"):
            try:
                tree = sqlglot.parse_one(q, read=D)
            except Exception:
                continue
            for node in tree.walk():
                f = node.args.get("format")
                if isinstance(f, exp.Literal) and f.is_string and f.this != probe:
                    return True
    return False


def obligations(tier: str, seed: int):
    obls = []
    tg = time_groups()
    ng = number_groups()
    tlen = 2 if tier == "quick" else 3
    for gi, g in enumerate(tg):
        if not observable(g[0]):
            # no function of this group carries a format literal through TIME_MAPPING: the clause is vacuous at API level
            continue
        ct = 100 if tier == "quick" else 600
        params = {"dialect": g[0], "mode": "time", "minlen": 1, "maxlen": tlen}
        key = f"time:{g[0] or 'base'}:len1-{tlen}"
        obls.append(Obl(key=key, harness="h_time.py", params=params, cond_timeout=ct, path_timeout=15,
                        desc={"group": g, "unit": "format_time parse/generate directions", "len": [1, tlen]}, group=key))
        # the next length under a budget: a counterexample is replayed and reported, absence is inconclusive
        nxt = tlen + 1
        if tier != "quick" or gi % 3 == seed % 3:
            params = {"dialect": g[0], "mode": "time", "minlen": nxt, "maxlen": nxt}
            key = f"time:{g[0] or 'base'}:len{nxt}-{nxt}"
            obls.append(Obl(key=key, harness="h_time.py", params=params, cond_timeout=120 if tier == "quick" else 900, path_timeout=15,
                            desc={"group": g, "unit": "format_time", "len": [nxt, nxt]}, group=key))
    nlen = 2 if tier == "quick" else 3
    for g in ng:
        params = {"dialect": g[0], "mode": "number", "minlen": 1, "maxlen": nlen}
        key = f"number:{g[0] or 'base'}:len1-{nlen}"
        if tier == "quick" and ng.index(g) % 3 != seed % 3:
            continue
        obls.append(Obl(key=key, harness="h_time.py", params=params, cond_timeout=150 if tier == "quick" else 600, path_timeout=15,
                        desc={"group": g, "unit": "_scan_number -> Literal.number -> literal_sql -> _scan_number", "len": [1, nlen]},
                        group=key))
    from props.C05 import stmt_obligations

    obls += stmt_obligations(tier, seed, "roundtrip")
    bounds = {
        "statement": "statements of props/stmtctx.py CORPUS (core grammar + 6 dialect-specific ones) with a one-character hole over the alphabet "
                     "a 1 space , ( ) ' \" + - * / = < > . ; : | & ! % [ ] LF inserted before / glued to / replacing a token: if the text parses, "
                     "generate(parse(.)) parses again and is a fixpoint (whole tokenize -> parse -> generate pipeline run symbolically)",
        "time": f"every Unicode string s with 1 <= len(s) <= {tlen}; len {tlen + 1} explored under a time budget (counterexamples reported, absence inconclusive)",
        "number": f"every lexeme over the number alphabet (digits . e E _ + - x b space and the dialect's suffix letters) with len <= {nlen}",
        "time_groups": len(tg), "number_groups": len(ng),
        "outside": "statements other than one-character perturbations of the corpus; tree equality of the two parses in the base dialect; "
                   "generator options",
    }
    return obls, bounds


def main(argv=None) -> int:
    ap = argparse.ArgumentParser()
    ap.add_argument("--tier", default=os.environ.get("VERIF_TIER", "quick"))
    ap.add_argument("--seed", type=int, default=int(os.environ.get("VERIF_SEED", "0") or 0))
    ap.add_argument("--only", default=None)
    a = ap.parse_args(argv)
    obls, bounds = obligations(a.tier, a.seed)
    if a.only:
        obls = [o for o in obls if a.only in o.key]
    return run_e1(
        PROP, a.tier, a.seed, obls,
        functions_encoded=["sqlglot Dialect.parse / Dialect.generate (tokenizer, parser and generator of the statement's dialect) on statements with a symbolic hole",
                           "sqlglot.time.format_time", "sqlglot.trie.in_trie", "Dialect.TIME_MAPPING/TIME_TRIE/INVERSE_TIME_MAPPING/INVERSE_TIME_TRIE "
                           "(as built by the _Dialect metaclass)", "TokenizerCore._scan_number", "Generator.literal_sql"],
        stubs=["number obligations: alphabet-exact str predicates (engines/xh/alpha.py)"],
        assumptions=["CrossHair/z3 sound; counterexamples of the unit-level assertion are replayed through sqlglot.transpile(read=d, write=d) "
                     "on every format-carrying function of the dialect and only a difference there is reported",
                     "dialects with identical time mappings share one representative"],
        rule="one obligation per (group of dialects with identical time mappings | number-scanning tables, length bound); s symbolic. "
             "Non-trivial = Confirmed over all paths and twin reached.",
        bounds=bounds,
        spurious_inconclusive=True, max_spurious_rounds=2,
    )


if __name__ == "__main__":
    sys.exit(main())
