"""C11 -- the Python executor returns what a reference SQL engine returns (E1 with the E2 evaluator as oracle)."""
from __future__ import annotations

import argparse
import os
import sys

from engines.xh.driver import run_e1
from engines.xh.runner import Obl

PROP = "C11"

# (sql, maxx, maxy, small-range columns, decided?)  -- decided=False: explored under a budget, absence of a counterexample
# is reported as inconclusive (DESIGN 5/C11: 2x1 and 2x2 joins do not finish)
SINGLE = [
    "SELECT a, b FROM x WHERE a > b",
    "SELECT a + b AS s, a * 2 - b AS d FROM x WHERE a = 1 OR b IS NULL",
    "SELECT a FROM x WHERE NOT (a > 0 AND b < 1)",
    "SELECT a, CASE WHEN a > b THEN a WHEN b IS NULL THEN 0 ELSE b END AS m FROM x",
    "SELECT COALESCE(a, b, 0) AS c, a IS NULL AS n, a IS NOT NULL AND b > 0 AS f FROM x",
    "SELECT a FROM x WHERE a IN (0, 1) OR b NOT IN (1, 2)",
    "SELECT a FROM x WHERE a BETWEEN 0 AND b",
    "SELECT a, b FROM x WHERE a <> b OR NOT b <= 0",
    "SELECT -a AS n, a - b AS d FROM x WHERE a >= b AND a < 3",
    "SELECT SUM(b) AS s, COUNT(*) AS n, COUNT(b) AS m, MIN(b) AS lo, MAX(b) AS hi FROM x",
    "SELECT SUM(a + b) AS s, COUNT(a) AS n FROM x WHERE b > 0",
]
SINGLE_SMALL = [
    ("SELECT a, b FROM x ORDER BY a NULLS FIRST, b DESC NULLS LAST", ["x.a", "x.b"]),
    ("SELECT a, b FROM x ORDER BY a NULLS FIRST, b DESC NULLS LAST LIMIT 1", ["x.a", "x.b"]),
    ("SELECT a, b FROM x ORDER BY a DESC NULLS LAST, b NULLS FIRST LIMIT 1 OFFSET 1", ["x.a", "x.b"]),
    ("SELECT DISTINCT a FROM x", ["x.a"]),
    ("SELECT a, SUM(b) AS s, COUNT(*) AS n FROM x GROUP BY a", ["x.a"]),
    ("SELECT a, COUNT(b) AS n FROM x GROUP BY a HAVING COUNT(*) > 1", ["x.a"]),
    ("SELECT a, MIN(b) AS lo, MAX(b) AS hi FROM x GROUP BY a", ["x.a"]),
]
JOINS = [
    "SELECT x.a, y.c FROM x JOIN y ON x.b = y.b",
    "SELECT x.a, y.c FROM x LEFT JOIN y ON x.b = y.b",
    "SELECT x.a, y.c FROM x RIGHT JOIN y ON x.b = y.b",
    "SELECT x.a, y.c FROM x FULL JOIN y ON x.b = y.b",
    "SELECT x.a, y.c FROM x CROSS JOIN y",
    "SELECT x.a, y.c FROM x LEFT JOIN y ON x.b = y.b AND y.c > 0 WHERE y.c IS NULL",
    "SELECT x.a, y.c FROM x JOIN y ON x.b = y.b WHERE x.a > y.c",
    "SELECT a FROM x UNION SELECT b FROM y",
    "SELECT a FROM x UNION ALL SELECT b FROM y",
    "SELECT a FROM x INTERSECT SELECT b FROM y",
    "SELECT a FROM x EXCEPT SELECT b FROM y",
    "SELECT a FROM x WHERE a IN (SELECT b FROM y)",
    "SELECT a FROM x WHERE a NOT IN (SELECT b FROM y)",
    "SELECT a FROM x WHERE EXISTS (SELECT 1 FROM y WHERE y.b = x.a)",
    "SELECT a, (SELECT MAX(c) FROM y WHERE y.b = x.a) AS m FROM x",
    "SELECT x.a, COUNT(y.c) AS n FROM x LEFT JOIN y ON x.b = y.b GROUP BY x.a",
    # composite join keys: a row whose key is only partly NULL matches nothing
    "SELECT x.a, y.c FROM x JOIN y ON x.a = y.b AND x.b = y.c",
    "SELECT x.a, y.c FROM x LEFT JOIN y ON x.a = y.b AND x.b = y.c",
    "SELECT x.a, y.c FROM x FULL JOIN y ON x.a = y.b AND x.b = y.c",
    # both branches of a set operation read the same table
    "SELECT a FROM x UNION ALL SELECT b FROM x",
    "SELECT a FROM x UNION SELECT b FROM x",
    "SELECT a FROM x EXCEPT SELECT b FROM x",
    "SELECT a FROM x INTERSECT SELECT b FROM x",
    "WITH q AS (SELECT a, b FROM x) SELECT a FROM q UNION ALL SELECT b FROM q",
]
JOIN_SMALL = ["x.a", "x.b", "y.b", "y.c"]


def obligations(tier: str, seed: int):
    obls = []

    def add(sql, maxx, maxy, small, ct, decided=True):
        key = f"{maxx}x{maxy}:{sql[:70]}"
        obls.append(Obl(key=key, harness="h_exec.py", params={"sql": sql, "maxx": maxx, "maxy": maxy, "small": small}, cond_timeout=ct,
                        path_timeout=30, twin_timeout=60,
                        desc={"sql": sql, "rows": {"x": f"0..{maxx}", "y": f"0..{maxy}"}, "small_range_columns": small,
                              "claim": "decided for all inputs in the bound" if decided else "explored under a time budget (not expected to be confirmed)"},
                        group=key))

    quick = tier == "quick"
    ct1 = 240 if quick else 1200
    for i, sql in enumerate(SINGLE):
        if quick and i % 2 != seed % 2 and i >= 4:
            continue  # plain scalar filters/projections: half of them per seed
        add(sql, 2, 0, [], ct1)
    for i, (sql, small) in enumerate(SINGLE_SMALL):
        if quick and i % 2 != seed % 2:
            continue
        add(sql, 2, 0, small, ct1)
    for i, sql in enumerate(JOINS):
        # joins / set operations / sub-queries are where NULL and empty-input rules live: always all of them
        add(sql, 1, 1, JOIN_SMALL, ct1)
    if not quick:
        for sql in JOINS:
            add(sql, 2, 1, JOIN_SMALL, 900, decided=False)
        for sql in JOINS[:6]:
            add(sql, 2, 2, JOIN_SMALL, 900, decided=False)
    bounds = {
        "cells": "every cell Optional[int]: NULL or any integer (columns listed under small_range_columns: NULL or -1..1, because the hash join / "
                 "group-by / sort realise their keys one value at a time)",
        "rows": "single-table queries: 0..2 rows; joins / set operations / sub-queries: 0..1 rows per table (thorough also explores 2x1 and 2x2 under a budget)",
        "outside": "tables with more rows; text/float columns; AVG; window functions; queries outside the listed family",
    }
    return obls, bounds


def main(argv=None) -> int:
    ap = argparse.ArgumentParser()
    ap.add_argument("--tier", default=os.environ.get("VERIF_TIER", "quick"))
    ap.add_argument("--seed", type=int, default=int(os.environ.get("VERIF_SEED", "0") or 0))
    ap.add_argument("--only", default=None)
    a = ap.parse_args(argv)
    obls, bounds = obligations(a.tier, a.seed)
    if a.only:
        obls = [o for o in obls if a.only in o.key]
    return run_e1(
        PROP, a.tier, a.seed, obls,
        functions_encoded=["sqlglot.executor.python.PythonExecutor.execute and every step it runs (scan, join: hash_join / nested_loop_join / "
                           "_append_unmatched_join_rows, aggregate, sort, set_operation)", "sqlglot.executor.env (NULL-propagating wrappers)",
                           "sqlglot.executor.context / table", "code generated by sqlglot.generators.python for the plan (compiled at import)"],
        stubs=["Plan(optimize(sql, schema, leave_tables_isolated=True)) is built concretely at import, as execute() does before evaluating",
               "Expression.__hash__ under NoTracing (engines/xh/shim.py)"],
        assumptions=["CrossHair/z3 sound", "the oracle is engines/sqlsmt/sem.py in plain-Python mode, itself validated against DuckDB; every counterexample is replayed "
                     "through the real sqlglot.executor.execute() against DuckDB and SQLite and reported only if the executor differs from the engines",
                     "ORDER BY without NULLS FIRST/LAST is avoided (SQLite and DuckDB disagree on the default)"],
        rule="one obligation per (query of the executor fragment, table-size bound): the table cells are symbolic; the assertion compares the executor's rows "
             "(bag; sequence under ORDER BY) with the reference semantics; ExecuteError is allowed. Non-trivial = Confirmed over all paths and twin reached.",
        bounds=bounds,
    )


if __name__ == "__main__":
    sys.exit(main())
