"""C13 -- source positions of tokens and errors point at the text they describe (E1, DESIGN §5)."""
from __future__ import annotations

import argparse
import os
import sys

from engines.xh.driver import run_e1
from engines.xh.runner import Obl
from props import common, tokctx

PROP = "C13"
MODE = "geom"


def tok_obligations(tier: str, seed: int, mode: str) -> tuple[list[Obl], dict]:
    fams = tokctx.families()
    groups = tokctx.groups()
    obls: list[Obl] = []

    def add(rep, members, ctx, minlen, maxlen, ct, pt=20.0):
        name, pre, post, _generic = ctx
        params = {"dialect": rep, "pre": pre, "post": post, "minlen": minlen, "maxlen": maxlen, "mode": mode}
        key = f"{mode}:{rep or 'base'}:{name}:len{minlen}-{maxlen}"
        obls.append(Obl(key=key, harness="h_tok.py", params=params, cond_timeout=ct, path_timeout=pt,
                        desc={"group": members, "context": name, "sql": pre + "<h>" + post, "len": [minlen, maxlen]},
                        group=key))

    if tier == "quick":
        # the scanning code is shared by all dialects, only the tables differ: the base family and a seed-rotated
        # few get every context template, every other family the two templates that exercise its own delimiters
        nfull = 3 if mode == "geom" else 1
        others = ("between", "quote[") if mode == "geom" else ("empty",)
        rest = [i for i in range(len(fams)) if fams[i][0] != ""]
        full = {i for i in range(len(fams)) if fams[i][0] == ""}
        for k in range(nfull):
            full.add(rest[(seed * nfull + k) % len(rest)])
        for i, f in enumerate(fams):
            for ctx in tokctx.contexts(f[0]):
                if i in full or ctx[0].startswith(others):
                    add(f[0], f, ctx, 0, 1, 150)
    else:
        for g in groups:
            for ctx in tokctx.contexts(g[0]):
                add(g[0], g, ctx, 0, 1, 300)
        nrot = 6
        for i, f in enumerate(fams):
            if i % nrot != seed % nrot:
                continue
            for ctx in tokctx.contexts(f[0]):
                if ctx[0] in ("empty", "between") or ctx[0].startswith(("quote", "multiword", "comment[/*]", "number-suffix")):
                    add(f[0], f, ctx, 2, 2, 600, pt=30.0)
    bounds = {
        "hole": "every string h over the alphabet SIGMA_d with minlen <= len(h) <= maxlen; sql = pre ++ h ++ post",
        "SIGMA_d": "every character occurring in any table of the dialect's TokenizerCore (quotes, identifiers, comments, "
                   "format-string prefixes, escapes, single tokens, non-alphanumeric keyword characters), the characters of "
                   "the context, and the representatives a e E x b n 0 1 9 _ space tab LF CR NUL U+00E9 U+00A0",
        "families": len(fams), "groups": len(groups),
        "outside": "characters outside SIGMA_d; holes longer than the bound; positions copied into Expression.meta by the parser",
    }
    return obls, bounds


def obligations(tier: str, seed: int) -> tuple[list[Obl], dict]:
    obls, bounds = tok_obligations(tier, seed, "geom")
    hl_len = 5 if tier == "quick" else 7
    err_len = 2 if tier == "quick" else 4
    obls.append(Obl(key=f"highlight_sql:len<={hl_len}", harness="h_highlight.py", params={"maxlen": hl_len}, func="prop_hl",
                    twin="twin_hl", cond_timeout=200 if tier == "quick" else 1500, path_timeout=20,
                    desc={"unit": "errors.highlight_sql", "sql": f"symbolic str, len<={hl_len}", "s,e,ctx": "all values in range"}))
    obls.append(Obl(key=f"raise_error:len<={err_len}", harness="h_highlight.py", params={"maxlen": err_len}, func="prop_err",
                    twin="twin_err", cond_timeout=240 if tier == "quick" else 1500, path_timeout=20,
                    desc={"unit": "Parser.raise_error -> ParseError.errors[0]", "sql": f"symbolic str, len<={err_len}",
                          "token": "start/end all values in range, line/col in 1..2, error level IMMEDIATE or RAISE"}))
    bounds["highlight"] = f"highlight_sql: len(sql)<={hl_len}, 0<=s<=e<len, 0<=ctx<=len+2; raise_error: len(sql)<={err_len}"
    return obls, bounds


FUNCS = [
    "sqlglot.tokenizer_core.TokenizerCore.tokenize/_scan/_advance/_add/_scan_keywords/_scan_comment/_scan_number/"
    "_scan_bits/_scan_hex/_extract_value/_scan_string/_scan_identifier/_scan_var/_extract_string",
    "sqlglot.tokens.Tokenizer.tokenize (and Athena's override)",
]
STUBS = [
    "engines/xh/alpha.py: str.isspace/isalnum/isalpha/isdigit/isidentifier/upper/lower/strip on symbolic strings are "
    "replaced by tables that are exact on the alphabet SIGMA_d (CrossHair's Unicode-database models cost ~8 s per path)",
]
ASSUME = [
    "CrossHair 0.0.110 models of str/int/list and z3 5.1 are sound; every counterexample is replayed in /venv/bin/python",
    "dialects with identical TokenizerCore tables behave identically (one representative per group / family)",
]


def main(argv=None) -> int:
    ap = argparse.ArgumentParser()
    ap.add_argument("--tier", default=os.environ.get("VERIF_TIER", "quick"))
    ap.add_argument("--seed", type=int, default=int(os.environ.get("VERIF_SEED", "0") or 0))
    ap.add_argument("--only", default=None)
    a = ap.parse_args(argv)
    obls, bounds = obligations(a.tier, a.seed)
    if a.only:
        obls = [o for o in obls if a.only in o.key]
    return run_e1(
        PROP, a.tier, a.seed, obls,
        functions_encoded=FUNCS + ["sqlglot.errors.highlight_sql", "sqlglot.parser.Parser.raise_error", "sqlglot.errors.ParseError.new"],
        stubs=STUBS, assumptions=ASSUME,
        rule="one obligation per (tokenizer family representative, context template derived from its tables, hole length bound): "
             "the hole h is symbolic; the assertion is the geometry contract of DESIGN 5/C13 (spans inside the input, increasing, "
             "non-overlapping, gaps = white-space + the comments carried by the tokens, line/col of the last character by the "
             "tokenizer's own line-break convention, TokenError.start/end select the quoted context); plus highlight_sql / "
             "raise_error arithmetic with symbolic text and offsets. Non-trivial = Confirmed over all paths and twin reached.",
        bounds=bounds,
    )


if __name__ == "__main__":
    sys.exit(main())
