"""C17 (partial: "none missing") -- column lineage vs. non-interference over two symbolic databases (E2)."""
from __future__ import annotations

import argparse
import json
import multiprocessing as mp
import os
import sys
import time

PROP = "C17"
SQLGLOT_SCHEMA = {"x": {"a": "INT", "b": "INT"}, "y": {"b": "INT", "c": "INT"}, "z": {"b": "INT", "c": "INT"}}


def leaves_of(node):
    from sqlglot import exp

    out = set()
    for n in node.walk():
        if isinstance(n.expression, exp.Table):
            out.add((n.expression.name.lower(), n.name.split(".")[-1].lower()))
    return out


def work(item):
    fam, sql, K, timeout_ms = item
    import z3
    import sqlglot
    from sqlglot.lineage import lineage
    from engines.sqlsmt.alg import Z3Alg
    from engines.sqlsmt.oblig import SCHEMA, model_to_data, solve, sym_tables
    from engines.sqlsmt.sem import Env, Sem, Unsupported, V

    out = {"fam": fam, "sql": sql, "obligations": [], "skipped": None}
    try:
        tree = sqlglot.parse_one(sql, read="duckdb")
        lin = lineage(None, sql, schema=SQLGLOT_SCHEMA, dialect="duckdb")
    except Exception as e:
        out["skipped"] = type(e).__name__ + ": " + str(e)[:80]
        return out
    A = Z3Alg()
    t1 = sym_tables(A, SCHEMA, K)
    try:
        s1 = Sem(A, t1, SCHEMA)
        r1 = s1.evq(tree, Env(s1))
    except Unsupported as u:
        out["skipped"] = "unsupported: " + str(u)[:80]
        return out
    names = [n for _q, n in r1.cols]
    out["leaves"] = {}
    for col_idx, name in enumerate(names):
        if name not in lin:
            continue
        L = leaves_of(lin[name])
        out["leaves"][name] = sorted(L)
        for t, cols in SCHEMA.items():
            for c, kind in cols:
                if (t, c) in L:
                    continue
                # second database: identical presence flags and cells, except column t.c which is free
                t2 = {}
                for tn, rows in t1.items():
                    nr = []
                    for i, (p, cells) in enumerate(rows):
                        if tn == t:
                            cc = dict(cells)
                            cc[c] = V(kind, z3.Bool(f"alt_{tn}_{c}{i}_n"), z3.Int(f"alt_{tn}_{c}{i}"))
                            nr.append((p, cc))
                        else:
                            nr.append((p, cells))
                    t2[tn] = nr
                s2 = Sem(A, t2, SCHEMA)
                r2 = s2.evq(tree, Env(s2))

                def proj(rel):
                    return [(p, [vals[col_idx]]) for p, vals in rel.rows]

                rows1, rows2 = proj(r1), proj(r2)

                def count(rows, row):
                    return A.Sum([A.If(A.And(p, s1.same(r[0], row[0])), A.Int(1), A.Int(0)) for p, r in rows])

                neq = A.Or(*[A.And(p, A.Not(A.Eq(count(rows1, r), count(rows2, r)))) for p, r in rows1 + rows2])
                t0 = time.time()
                verdict, model, dt, _s = solve([neq], s1.assumptions + s2.assumptions, timeout_ms)
                rec = {"output": name, "column": f"{t}.{c}", "verdict": verdict, "ms": round(dt * 1000, 1)}
                if model is not None:
                    d1 = model_to_data(model, SCHEMA, K)
                    # database 2: same rows with the alt values in column t.c
                    d2 = {k: list(v) for k, v in d1.items()}
                    newrows = []
                    ci = [x for x, _k in SCHEMA[t]].index(c)
                    j = 0
                    for i in range(K):
                        if z3.is_true(model.eval(z3.Bool(f"{t}_p{i}"), model_completion=True)):
                            row = list(d1[t][j])
                            if z3.is_true(model.eval(z3.Bool(f"alt_{t}_{c}{i}_n"), model_completion=True)):
                                row[ci] = None
                            else:
                                row[ci] = model.eval(z3.Int(f"alt_{t}_{c}{i}"), model_completion=True).as_long()
                            newrows.append(tuple(row))
                            j += 1
                    d2[t] = newrows
                    rec["data1"], rec["data2"] = d1, d2
                out["obligations"].append(rec)
    return out


def replay(sql: str, name: str, d1: dict, d2: dict):
    from engines.sqlsmt import bridge
    from engines.sqlsmt.oblig import SCHEMA

    r1 = bridge.run_duckdb(sql, d1, SCHEMA)
    r2 = bridge.run_duckdb(sql, d2, SCHEMA)
    if not (r1["ok"] and r2["ok"]):
        return {"ok": False, "r1": r1, "r2": r2}
    i = [n.lower() for n in r1["names"]].index(name)
    c1 = [(r[i],) for r in r1["rows"]]
    c2 = [(r[i],) for r in r2["rows"]]
    return {"ok": True, "differs": not bridge.same_rows(c1, c2, False), "col1": c1, "col2": c2}


def main(argv=None) -> int:
    ap = argparse.ArgumentParser()
    ap.add_argument("--tier", default=os.environ.get("VERIF_TIER", "quick"))
    ap.add_argument("--seed", type=int, default=int(os.environ.get("VERIF_SEED", "0") or 0))
    a = ap.parse_args(argv)
    t0 = time.time()
    from engines.evidence import write_evidence
    from engines.sqlsmt import selftest
    from engines.sqlsmt.gen_lineage import programs
    from props.common import VERIF, repo_dirty, repo_head

    st = selftest.relational_selftest(n_db=4)
    if not st["ok"]:
        print("HARNESS-ERROR: relational self-test failed:", json.dumps(st["failures"][:3], default=str)[:1500])
        return 3
    # the check itself must be able to see a missing leaf: a lineage with one leaf removed has to come back sat
    K = 2 if a.tier == "quick" else 3
    progs = programs(a.tier, a.seed)
    items = [(f, q, K, 10000) for f, q in progs]
    with mp.Pool(min(16, os.cpu_count() or 4)) as pool:
        results = pool.map(work, items, chunksize=2)
    counts, skipped = {}, {}
    violations, spurious, samples = [], [], []
    decided = 0
    solver_s = 0.0
    sat_checked = 0
    for r in results:
        if r["skipped"]:
            k = r["skipped"].split(":")[0]
            skipped[k] = skipped.get(k, 0) + 1
            continue
        ok = True
        for o in r["obligations"]:
            counts[o["verdict"]] = counts.get(o["verdict"], 0) + 1
            solver_s += o["ms"] / 1000
            if o["verdict"] not in ("unsat", "sat"):
                ok = False
            if o["verdict"] == "sat":
                rp = replay(r["sql"], o["output"], o["data1"], o["data2"])
                sat_checked += 1
                if rp.get("ok") and rp.get("differs"):
                    violations.append({"program": r["sql"], "output": o["output"], "missing_leaf": o["column"], "lineage_leaves": r["leaves"].get(o["output"]),
                                       "data1": o["data1"], "data2": o["data2"], "duckdb": {"column_on_data1": rp["col1"], "column_on_data2": rp["col2"]}})
                else:
                    spurious.append({"program": r["sql"], "obligation": o, "replay": rp})
        if ok and r["obligations"]:
            decided += 1
        if len(samples) < 40:
            samples.append({"program": r["sql"], "leaves": r.get("leaves"), "non_leaf_columns_checked": len(r["obligations"])})
    # known findings (C17 has only fixed ones): a fixed finding suppresses nothing -- its witness is one more obligation
    from engines import kf
    from sqlglot.lineage import lineage as _lineage

    kf_report = []
    for f in kf.load(PROP):
        w = f.get("witness")
        if not w:
            continue
        got = leaves_of(_lineage(w["output"], w["sql"], schema=SQLGLOT_SCHEMA, dialect="duckdb"))
        fails = tuple(w["leaf"]) not in got
        kf_report.append({"id": f["id"], "status": f["status"], "witness_fails": fails})
        if fails and f["status"] == "open":
            print(f"KNOWN-FINDING: property={PROP} {f['id']}: {f['what']}")
        elif fails:
            rp = replay(w["sql"], w["output"], w["data1"], w["data2"])
            if rp.get("ok") and rp.get("differs"):
                violations.append({"program": w["sql"], "output": w["output"], "missing_leaf": ".".join(w["leaf"]), "lineage_leaves": sorted(got),
                                   "data1": w["data1"], "data2": w["data2"], "duckdb": {"column_on_data1": rp["col1"], "column_on_data2": rp["col2"]},
                                   "kind": "fixed-finding-regression:" + f["id"]})
    # sensitivity self-test: dropping a real leaf must be detected by the same obligation
    sens = sensitivity_selftest(K)
    harness_errors = [] if sens["ok"] else ["sensitivity self-test failed: " + json.dumps(sens)[:500]]
    if violations:
        rdir = os.path.join(VERIF, "replays", PROP)
        os.makedirs(rdir, exist_ok=True)
        for i, v in enumerate(violations[:25]):
            path = os.path.join(rdir, f"{a.tier}-{i}.json")
            json.dump({"property": PROP, "engine": "sqlsmt", **v}, open(path, "w"), indent=1, default=str)
            print(f"VIOLATION property={PROP} replay={path}")
            print(f"  {v['program']!r}: output {v['output']} depends on {v['missing_leaf']} which lineage does not report (leaves {v['lineage_leaves']}); {v['duckdb']}")
    coverage = {
        "programs": decided, "disagreements_checked": sat_checked, "samples": samples,
        "obligations": sum(len(r["obligations"]) for r in results), "verdict_counts": counts, "skipped_programs": skipped,
        "programs_generated": len(items), "K": K, "spurious": spurious[:10], "solver_wall_s": round(solver_s, 1),
        "sensitivity_selftest": sens, "known_findings": kf_report, "encoding_validation": {k: v for k, v in st.items() if k != "failures"},
        "functions_encoded": ["sqlglot.lineage.lineage(None, sql, schema, dialect='duckdb') -> leaves per output column (real code, run concretely)"],
        "bounds": {"database": f"two databases with identical presence flags, <= {K} rows per table, differing only in one base column",
                   "programs": "filter-free family of engines/sqlsmt/gen_lineage.py (projections, derived tables, CTEs used once/twice, UNION ALL, cross joins, "
                               "scalar aggregate sub-queries incl. ones whose SELECT list uses an outer column, the same alias for different tables in "
                               "sibling/nested scopes, stars, column-list aliases; depth <= 3)",
                   "outside": "the 'none extra' half and the three invariances (CTE vs derived table, sources argument, alias renaming) are syntactic and NOT decided; "
                              "queries with WHERE/ON/GROUP BY/DISTINCT/ORDER BY (control dependence)"},
        "repo_head": repo_head() + ("+dirty" if repo_dirty() else ""), "harness_errors": harness_errors,
    }
    write_evidence(PROP, a.tier, a.seed, "translation_validation", coverage,
                   ["z3 decides each non-interference obligation (10 s cap)", "the evaluator is validated against DuckDB on every run",
                    "a sat model is reported only if DuckDB returns different values for the output column on the two databases"],
                   time.time() - t0, len(violations))
    print(f"[{PROP}] tier={a.tier} K={K} programs={len(items)} decided={decided} {counts} skipped={sum(skipped.values())} violations={len(violations)} "
          f"spurious={len(spurious)} sensitivity={sens['ok']} wall={time.time() - t0:.0f}s")
    if violations:
        return 1
    if harness_errors:
        print("HARNESS-ERROR:", harness_errors[0])
        return 3
    return 0


def sensitivity_selftest(K: int) -> dict:
    """Removes one true leaf from the lineage answer of three queries and checks that the obligation comes back sat."""
    import sqlglot.lineage as L

    real = L.lineage
    detected = 0
    cases = ["SELECT a + b AS p FROM x", "WITH t AS (SELECT a, b FROM x) SELECT t1.a AS p, t2.b AS q FROM t AS t1 CROSS JOIN t AS t2",
             "SELECT a AS p, (SELECT MAX(c) FROM y) AS q FROM x"]
    global leaves_of
    orig_leaves = leaves_of
    try:
        for sql in cases:
            dropped = {"done": False}

            def fake_leaves(node):
                s = orig_leaves(node)
                if s and not dropped["done"]:
                    s = set(sorted(s)[1:]) if len(s) > 1 else set()
                    dropped["done"] = True
                return s

            leaves_of = fake_leaves
            r = work(("selftest", sql, K, 10000))
            if any(o["verdict"] == "sat" for o in r["obligations"]):
                detected += 1
    finally:
        leaves_of = orig_leaves
    return {"ok": detected == len(cases), "cases": len(cases), "detected": detected}


if __name__ == "__main__":
    sys.exit(main())
