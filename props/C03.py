"""C03 -- the optimizer never changes what a query returns (E2 relational translation validation)."""
from __future__ import annotations

import argparse
import json
import multiprocessing as mp
import os
import sys
import time

PROP = "C03"
SQLGLOT_SCHEMA = {"x": {"a": "INT", "b": "INT"}, "y": {"b": "INT", "c": "INT"}, "z": {"b": "INT", "c": "INT"}}
FIXTURES = ["optimizer", "pushdown_predicates", "merge_subqueries", "unnest_subqueries", "eliminate_joins", "eliminate_ctes",
            "eliminate_subqueries", "optimize_joins", "pushdown_projections", "qualify_columns"]


def fixture_programs():
    sys.path.insert(0, "/repo")
    out = []
    try:
        from tests.helpers import load_sql_fixture_pairs
    except Exception:
        return out
    for name in FIXTURES:
        try:
            for meta, sql, _expected in load_sql_fixture_pairs(f"optimizer/{name}.sql"):
                if meta.get("dialect") not in (None, "duckdb") or meta.get("validate_qualify_columns") == "false":
                    continue
                if len(sql) < 400:
                    out.append((f"fixture:{name}", sql))
        except Exception:
            continue
    return out


def replay_rel(sql1: str, sql2: str, data: dict, ordered: bool):
    from engines.sqlsmt import bridge
    from engines.sqlsmt.oblig import SCHEMA

    r1 = bridge.run_duckdb(sql1, data, SCHEMA)
    r2 = bridge.run_duckdb(sql2, data, SCHEMA)
    if not (r1["ok"] and r2["ok"]):
        return {"ok": False, "r1": r1, "r2": r2}
    return {"ok": True, "differs": not bridge.same_rows(r1["rows"], r2["rows"], ordered), "rows1": r1["rows"][:10], "rows2": r2["rows"][:10],
            "names1": r1["names"], "names2": r2["names"]}


def work(item):
    fam, sql, K, timeout_ms = item
    import sqlglot
    from sqlglot import exp
    from sqlglot.errors import OptimizeError, ParseError
    from sqlglot.optimizer.optimizer import RULES, optimize
    from engines.sqlsmt.oblig import QueryPair
    from engines.sqlsmt.sem import Unsupported

    out = {"fam": fam, "sql": sql, "obligations": [], "skipped": None}
    try:
        q0 = sqlglot.parse_one(sql, read="duckdb")
    except Exception as e:
        out["skipped"] = "parse: " + type(e).__name__
        return out
    if not isinstance(q0, exp.Query):
        out["skipped"] = "not a query"
        return out
    prefixes = [q0]
    for i in range(1, len(RULES) + 1):
        try:
            prefixes.append(optimize(q0, schema=SQLGLOT_SCHEMA, dialect="duckdb", rules=RULES[:i]))
        except OptimizeError as e:
            out["skipped"] = f"OptimizeError at {RULES[i - 1].__name__}: {str(e)[:80]}"
            return out
        except Exception as e:
            out["skipped"] = f"optimize raised {type(e).__name__} at {RULES[i - 1].__name__}: {str(e)[:80]}"
            out["raised"] = True
            return out
    texts = [p.sql("duckdb") for p in prefixes]
    pairs = []
    for i in range(1, len(prefixes)):
        if texts[i] != texts[i - 1]:
            pairs.append((RULES[i - 1].__name__, i - 1, i))
    pairs.append(("optimize(all rules)", 0, len(prefixes) - 1))
    # side check (concrete, not the deciding step): both texts must be accepted by the engine on an empty database
    from engines.sqlsmt import bridge
    from engines.sqlsmt.oblig import SCHEMA
    e0 = bridge.run_duckdb(texts[0], {}, SCHEMA)
    e1 = bridge.run_duckdb(texts[-1], {}, SCHEMA)
    if e0["ok"] and not e1["ok"]:
        out["rejected"] = {"before": texts[0], "after": texts[-1], "error": e1["error"]}
    for rule, i, j in pairs:
        rec = {"rule": rule, "before": texts[i], "after": texts[j]}
        try:
            t0 = time.time()
            qp = QueryPair(prefixes[i], prefixes[j], K=K, timeout_ms=timeout_ms)
            r = qp.decide()
            rec["verdict"] = r["verdict"]
            rec["ms"] = round((time.time() - t0) * 1000, 1)
            rec["features"] = r.get("features")
            n1, n2 = r["names"]
            if i == 0:
                # output names: only positions the input names explicitly (alias or bare column)
                bad = [k for k, (a, b) in enumerate(zip(n1, n2)) if a and a != b]
                if len(n1) != len(n2) or bad:
                    rec["names_differ"] = [n1, n2]
            if r["verdict"] == "sat":
                rec["data"] = r.get("data")
                rec["reason"] = r.get("reason")
        except Unsupported as u:
            rec["verdict"] = "unsupported"
            rec["why"] = str(u)[:80]
        except RecursionError:
            rec["verdict"] = "unsupported"
            rec["why"] = "recursion"
        except Exception as ex:
            rec["verdict"] = "error"
            rec["why"] = type(ex).__name__ + ": " + str(ex)[:160]
        out["obligations"].append(rec)
    return out


def _subquery_predicate_as_value(sql: str) -> bool:
    """Does a sub-query predicate (IN / ANY / ALL / EXISTS over a query) occur outside WHERE / HAVING / ON / QUALIFY, i.e. is
    its three-valued result observable as a value?"""
    import sqlglot
    from sqlglot import exp

    try:
        tree = sqlglot.parse_one(sql, read="duckdb")
    except Exception:
        return False
    for n in tree.walk():
        is_pred = (isinstance(n, exp.In) and (n.args.get("query") is not None or any(isinstance(x, (exp.Subquery, exp.Select)) for x in n.expressions))) \
            or isinstance(n, (exp.Any, exp.All, exp.Exists))
        if not is_pred:
            continue
        anc = n.parent
        in_filter = False
        while anc is not None and not isinstance(anc, exp.Select):
            if isinstance(anc, (exp.Where, exp.Having, exp.Join, exp.Qualify)):
                in_filter = True
                break
            anc = anc.parent
        if not in_filter:
            return True
    return False


def _nonagg_scalar_subquery_outside_conjunct(sql: str) -> bool:
    """Does the WHERE clause hold a scalar sub-query (a sub-query used as a value, not under IN/ANY/ALL/EXISTS) whose SELECT is not
    an aggregate -- so it may return no row, i.e. NULL -- at a place that is not a plain top-level conjunct comparison (under
    OR / NOT / a function such as COALESCE / IS)?  There `NULL` and `no row to join with` are observably different."""
    import sqlglot
    from sqlglot import exp

    try:
        tree = sqlglot.parse_one(sql, read="duckdb")
    except Exception:
        return False
    for sub in tree.find_all(exp.Subquery):
        inner = sub.this
        if not isinstance(inner, exp.Select) or isinstance(sub.parent, (exp.In, exp.Any, exp.All, exp.Exists, exp.From, exp.Join, exp.Table)):
            continue
        if inner.args.get("group") or any(s.find(exp.AggFunc) for s in inner.selects):
            continue
        anc, plain, in_where = sub.parent, True, False
        first = True
        while anc is not None and not isinstance(anc, exp.Select):
            if isinstance(anc, exp.Where):
                in_where = True
                break
            if first and isinstance(anc, (exp.GT, exp.GTE, exp.LT, exp.LTE, exp.EQ, exp.NEQ)):
                pass  # the comparison that consumes the scalar
            elif not isinstance(anc, (exp.And, exp.Paren)):
                plain = False
            first = False
            anc = anc.parent
        if in_where and not plain:
            return True
    return False


def region_of(o: dict, prog: dict, open_f: list) -> str | None:
    """Known-finding regions (known_findings.json) as predicates over one obligation of one program."""
    ids = {f["id"] for f in open_f}
    rule = o["rule"]

    def step_region(rule, before, after):
        if "C03-right-join-on-true-to-cross" in ids and rule == "simplify" and "RIGHT JOIN" in before and " ON TRUE" in before \
                and after.count("CROSS JOIN") > before.count("CROSS JOIN"):
            return "C03-right-join-on-true-to-cross"
        if "C03-subquery-predicate-as-value" in ids and rule == "unnest_subqueries" and _subquery_predicate_as_value(before):
            return "C03-subquery-predicate-as-value"
        if "C03-unnest-nonaggregate-scalar-outside-conjunct" in ids and rule == "unnest_subqueries" and _nonagg_scalar_subquery_outside_conjunct(before) \
                and after.count("JOIN") > before.count("JOIN"):
            return "C03-unnest-nonaggregate-scalar-outside-conjunct"
        if "C03-cross-join-limit1-eliminated" in ids and rule == "eliminate_joins" and "CROSS JOIN" in before and "LIMIT 1" in before \
                and after.count("CROSS JOIN") < before.count("CROSS JOIN"):
            return "C03-cross-join-limit1-eliminated"
        if "C03-aggregate-projection-pruned" in ids and rule == "pushdown_projections" and "GROUP BY" not in before:
            aggs = lambda t: sum(t.count(f) for f in ("SUM(", "COUNT(", "MIN(", "MAX(", "AVG("))
            if aggs(after) < aggs(before):
                return "C03-aggregate-projection-pruned"
        return None

    if rule != "optimize(all rules)":
        return step_region(rule, o["before"], o["after"])
    failing = [x for x in prog["obligations"] if x["rule"] != "optimize(all rules)" and x["verdict"] == "sat"]
    if not failing:
        # a step may be undecided (unsupported intermediate form): fall back to the program itself
        if "C03-subquery-predicate-as-value" in ids and _subquery_predicate_as_value(o["before"]):
            return "C03-subquery-predicate-as-value"
        if "C03-unnest-nonaggregate-scalar-outside-conjunct" in ids and _nonagg_scalar_subquery_outside_conjunct(o["before"]):
            return "C03-unnest-nonaggregate-scalar-outside-conjunct"
        return None
    regs = [step_region(x["rule"], x["before"], x["after"]) for x in failing]
    return regs[0] if all(regs) else None


def main(argv=None) -> int:
    ap = argparse.ArgumentParser()
    ap.add_argument("--tier", default=os.environ.get("VERIF_TIER", "quick"))
    ap.add_argument("--seed", type=int, default=int(os.environ.get("VERIF_SEED", "0") or 0))
    ap.add_argument("--limit", type=int, default=0)
    ap.add_argument("--K", type=int, default=0)
    a = ap.parse_args(argv)
    t0 = time.time()
    from engines import kf as kfmod
    from engines.evidence import write_evidence
    from engines.sqlsmt import selftest
    from engines.sqlsmt.gen_rel import programs
    from props.common import VERIF, repo_dirty, repo_head

    st = selftest.relational_selftest()
    if not st["ok"]:
        print("HARNESS-ERROR: relational self-test failed:", json.dumps(st["failures"][:3], default=str)[:1500])
        return 3
    K = a.K or (2 if a.tier == "quick" else 3)
    timeout_ms = 10000 if a.tier == "quick" else 30000
    progs = fixture_programs() + programs(a.tier, a.seed)
    if a.limit:
        progs = progs[: a.limit]
    seen = set()
    items = []
    for fam, s in progs:
        if s not in seen:
            seen.add(s)
            items.append((fam, s, K, timeout_ms))
    with mp.Pool(min(16, os.cpu_count() or 4)) as pool:
        results = pool.map(work, items, chunksize=2)

    findings = kfmod.load(PROP)
    open_f = [f for f in findings if f.get("status") == "open"]
    counts, unsupported, skipped = {}, {}, {}
    violations, spurious, samples, raised = [], [], [], []
    kf_hits = {}
    decided_programs = 0
    sat_checked = 0
    solver_s = 0.0
    for r in results:
        if r["skipped"]:
            key = r["skipped"].split(":")[0][:60]
            skipped[key] = skipped.get(key, 0) + 1
            if r.get("raised"):
                raised.append({"sql": r["sql"], "what": r["skipped"]})
            continue
        if r.get("rejected"):
            rej = r["rejected"]
            hit = None
            for f in open_f:
                m = f.get("match") or {}
                if m.get("engine_error_contains") and m["engine_error_contains"] in rej["error"]:
                    hit = f["id"]
                if m.get("program") and m["program"] == r["sql"]:
                    hit = f["id"]
            if hit:
                kf_hits[hit] = kf_hits.get(hit, 0) + 1
            else:
                violations.append({"program": r["sql"], "rule": "optimize(all rules)", "before": rej["before"], "after": rej["after"],
                                   "kind": "optimized-query-rejected-by-engine", "detail": "DuckDB accepts the original but rejects the optimized query: " + rej["error"]})
        all_decided = True
        for o in r["obligations"]:
            v = o["verdict"]
            counts[v] = counts.get(v, 0) + 1
            solver_s += o.get("ms", 0) / 1000
            if v == "unsupported":
                unsupported[o.get("why", "?")] = unsupported.get(o.get("why", "?"), 0) + 1
            if v not in ("unsat", "sat"):
                all_decided = False
            if o.get("names_differ"):
                violations.append({"program": r["sql"], "rule": o["rule"], "before": o["before"], "after": o["after"], "kind": "output-names",
                                   "detail": f"output column names changed: {o['names_differ']}"})
            if v == "sat":
                hit = region_of(o, r, open_f)
                if hit:
                    kf_hits[hit] = kf_hits.get(hit, 0) + 1
                    continue
                if o.get("reason") == "arity":
                    violations.append({"program": r["sql"], "rule": o["rule"], "before": o["before"], "after": o["after"], "kind": "arity"})
                    continue
                ordered = " ORDER BY " in o["before"].rsplit(")", 1)[-1] and " ORDER BY " in o["after"].rsplit(")", 1)[-1]
                rp = replay_rel(o["before"], o["after"], o["data"], ordered)
                sat_checked += 1
                if rp.get("ok") and rp.get("differs"):
                    violations.append({"program": r["sql"], "rule": o["rule"], "before": o["before"], "after": o["after"], "data": o["data"],
                                       "duckdb": {"rows_before": rp["rows1"], "rows_after": rp["rows2"]}})
                else:
                    spurious.append({"program": r["sql"], "rule": o["rule"], "before": o["before"], "after": o["after"], "data": o["data"], "replay": rp})
        if all_decided and r["obligations"]:
            decided_programs += 1
        if len(samples) < 60 and r["obligations"]:
            o = r["obligations"][-1]
            samples.append({"program": r["sql"], "family": r["fam"], "rules_that_changed_it": [x["rule"] for x in r["obligations"][:-1]],
                            "optimized": o["after"], "verdict": o["verdict"], "ms": o.get("ms")})
    # known findings: replay witnesses
    kf_lines, kf_report = [], []
    for f in findings:
        w = f.get("witness")
        if not w:
            continue
        import sqlglot
        from sqlglot.optimizer.optimizer import optimize

        q = sqlglot.parse_one(w["sql"], read="duckdb")
        opt = optimize(q, schema=SQLGLOT_SCHEMA, dialect="duckdb")
        if w.get("rejected"):
            from engines.sqlsmt import bridge
            from engines.sqlsmt.oblig import SCHEMA
            fails = bridge.run_duckdb(q.sql("duckdb"), {}, SCHEMA)["ok"] and not bridge.run_duckdb(opt.sql("duckdb"), {}, SCHEMA)["ok"]
            rp = {}
        else:
            rp = replay_rel(q.sql("duckdb"), opt.sql("duckdb"), {k: [tuple(r) for r in v] for k, v in w["data"].items()}, False)
            fails = bool(rp.get("ok") and rp.get("differs"))
        kf_report.append({"id": f["id"], "status": f["status"], "witness_fails": fails, "programs_in_region": kf_hits.get(f["id"], 0)})
        if f["status"] == "open" and fails:
            kf_lines.append(f"KNOWN-FINDING: property={PROP} {f['id']}: {f['what']}")
        if f["status"] == "fixed" and fails:
            violations.append({"program": w["sql"], "rule": "fixed-finding-regression:" + f["id"], "before": q.sql("duckdb"), "after": opt.sql("duckdb"),
                               "data": w.get("data")})
    for line in kf_lines:
        print(line)
    if violations:
        rdir = os.path.join(VERIF, "replays", PROP)
        os.makedirs(rdir, exist_ok=True)
        seen_v = set()
        n = 0
        for v in violations:
            key = (v.get("rule"), v.get("before"), v.get("after"))
            if key in seen_v:
                continue
            seen_v.add(key)
            path = os.path.join(rdir, f"{a.tier}-{n}.json")
            json.dump({"property": PROP, "engine": "sqlsmt", **v}, open(path, "w"), indent=1, default=str)
            print(f"VIOLATION property={PROP} replay={path}")
            print(f"  rule={v.get('rule')} program={v.get('program')!r}\n    before={v.get('before')!r}\n    after={v.get('after')!r}\n    data={v.get('data')} duckdb={v.get('duckdb')} {v.get('detail', '')}")
            n += 1
            if n >= 25:
                break
    harness_errors = []
    errs = [(r["sql"], o["rule"], o["why"]) for r in results if not r.get("rejected") for o in r["obligations"] if o["verdict"] == "error"]
    if errs:
        harness_errors.append(f"{len(errs)} obligations hit an evaluator error: {errs[:5]}")
    coverage = {
        "programs": decided_programs,
        "disagreements_checked": sat_checked,
        "samples": samples,
        "obligations": sum(len(r["obligations"]) for r in results),
        "verdict_counts": counts,
        "unsat": counts.get("unsat", 0), "sat": counts.get("sat", 0), "unknown": counts.get("unknown", 0),
        "unsupported": dict(sorted(unsupported.items(), key=lambda kv: -kv[1])[:25]),
        "skipped_programs": skipped,
        "programs_generated": len(items),
        "K": K,
        "known_findings": kf_report,
        "spurious": spurious[:20],
        "optimize_raised": raised[:10],
        "solver_wall_s": round(solver_s, 1),
        "encoding_validation": {k: v for k, v in st.items() if k != "failures"},
        "functions_encoded": ["sqlglot.optimizer.optimize(q, schema, dialect='duckdb', rules=RULES[:i]) for every prefix i = 1..14 (real rules, run concretely)"],
        "bounds": {"database": f"every database over x(a,b) y(b,c) z(b,c) with <= {K} rows per table, unbounded integers, NULLs, duplicates, empty tables",
                   "programs": "fixture inputs (10 optimizer fixture files) in the fragment + the bounded query family of engines/sqlsmt/gen_rel.py",
                   "outside": "window functions, LIMIT without ORDER BY, ties under LIMIT, UNNEST/LATERAL, floats, division, text; more than K rows per table"},
        "repo_head": repo_head() + ("+dirty" if repo_dirty() else ""),
        "harness_errors": harness_errors,
    }
    write_evidence(PROP, a.tier, a.seed, "translation_validation", coverage,
                   ["z3 5.1 decides each obligation (10 s cap quick / 30 s thorough; unknown is inconclusive)",
                    "the evaluator (engines/sqlsmt/sem.py) is validated against DuckDB on every run (encoding_validation)",
                    "a sat model is reported only if DuckDB returns different rows for the two SQL texts on the model database",
                    "ORDER BY keys under LIMIT are assumed tie-free; scalar sub-queries are assumed to return at most one row"],
                   time.time() - t0, len(violations))
    print(f"[{PROP}] tier={a.tier} K={K} programs={len(items)} decided={decided_programs} {counts} skipped={sum(skipped.values())} known={kf_hits} "
          f"violations={len(violations)} spurious={len(spurious)} wall={time.time() - t0:.0f}s")
    if violations:
        return 1
    if harness_errors:
        print("HARNESS-ERROR:", harness_errors[0][:1500])
        return 3
    return 0


if __name__ == "__main__":
    sys.exit(main())
