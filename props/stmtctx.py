"""Statement-with-a-hole contexts for the parser-level obligations of C01 / C05 (harness/h_stmt.py)."""
from __future__ import annotations

import random

# Short statements on purpose: the cost of one symbolic path grows faster than linearly with the length of the text (every
# character access on a mixed concrete/symbolic string is interpreted), measured 2 s per path at ~25 characters and
# 20-60 s per path at ~80 characters.
CORPUS = [
    ("", "SELECT a, b FROM t"),
    ("", "SELECT a + 1 AS c FROM t"),
    ("", "SELECT a FROM t WHERE b > 1"),
    ("", "SELECT a FROM t ORDER BY a DESC"),
    ("", "SELECT a FROM t LIMIT 1"),
    ("", "SELECT COUNT(*) FROM t"),
    ("", "SELECT a FROM t JOIN u ON a = b"),
    ("", "SELECT a FROM t GROUP BY a"),
    ("", "SELECT a IN (1, 2)"),
    # single-element lists: deleting the element leaves an empty bracketed list
    ("", "SELECT a IN (1)"),
    ("", "SELECT f(a)"),
    ("", "SELECT (a)"),
    # a unary operator applied to a function that the parser rewrites into an operator / a CASE
    ("", "SELECT -MOD(a, 2)"),
    ("", "SELECT NOT IF(a, b, c)"),
    # ... and the same with an operand that itself renders with a leading minus once MOD has become `%`
    ("", "SELECT -MOD(-a, 2)"),
    ("", "SELECT a BETWEEN 1 AND 2"),
    ("", "SELECT CASE WHEN a THEN 1 END"),
    ("", "SELECT CAST(a AS INT)"),
    ("", "SELECT a IS NULL OR NOT b"),
    ("", "SELECT -a * (b - 1)"),
    ("", "SELECT a || 'x'"),
    ("", "SELECT * FROM (SELECT 1) AS s"),
    ("", "WITH q AS (SELECT 1) SELECT * FROM q"),
    ("", "SELECT 1 UNION ALL SELECT 2"),
    ("", "SELECT EXISTS (SELECT 1)"),
    ("", "SELECT SUM(a) OVER (ORDER BY b)"),
    ("", "INSERT INTO t VALUES (1)"),
    ("", "UPDATE t SET a = 1"),
    ("", "DELETE FROM t WHERE a"),
    ("", "CREATE TABLE t (a INT)"),
    ("mysql", "SELECT `a` FROM t LIMIT 1, 2"),
    ("postgres", "SELECT a::INT"),
    ("bigquery", "SELECT STRUCT(b AS x)"),
    ("duckdb", "SELECT a FROM t QUALIFY b"),
    ("snowflake", "SELECT a:b::INT"),
    ("tsql", "SELECT TOP 1 [a] FROM t"),
    # statements whose parser builds a keyword list token by token and falls back to Command
    ("", "GRANT SELECT ON t TO u"),
    # the generator keeps `- -a` from becoming the comment marker `--a`
    ("", "SELECT - -a"),
    # a cast to a temporal type takes an optional FORMAT / `,` <format string> tail
    ("", "SELECT CAST(a AS DATE)"),
    # same guard for the other prefix operator whose doubled form is a different token (`~~` lexes as LIKE)
    ("", "SELECT ~ ~a"),
]


def contexts(dialect: str, sql: str):
    """-> [(name, pre, post)]: a hole inserted before each token (with and without surrounding blanks) or replacing it."""
    import sqlglot

    toks = sqlglot.tokenize(sql, dialect=dialect or None)
    out = []
    for i, t in enumerate(toks):
        # one kind per token boundary, cycling, so that the full set stays small enough to be explored completely
        kind = ("ins", "rep", "glue")[i % 3]
        if kind == "ins":
            out.append((f"ins@{i}", sql[: t.start], " " + sql[t.start:]))
        elif kind == "glue":
            out.append((f"glue@{i}", sql[: t.start], sql[t.start:]))
        else:
            out.append((f"rep@{i}", sql[: t.start], sql[t.end + 1:]))
        # the first token of a bracketed operand additionally gets the glue kind whatever the cycle gave it: a prefix
        # operator character glued to an operand is how `f(-a)`, `(~a)`, `(-1)` arise from `f(a)`, `(a)`, `(1)`
        if kind != "glue" and i and toks[i - 1].text == "(" and t.text not in ("(", ")"):
            out.append((f"glue@{i}", sql[: t.start], sql[t.start:]))
    out.append(("end", sql + " ", ""))
    return out


def select(tier: str, seed: int, n_quick: int):
    rnd = random.Random(seed)
    all_ctx = []
    for d, sql in CORPUS:
        for name, pre, post in contexts(d, sql):
            all_ctx.append((d, sql, name, pre, post))
    if tier == "quick":
        # every statement contributes; positions rotate with the seed
        by_stmt = {}
        for c in all_ctx:
            by_stmt.setdefault((c[0], c[1]), []).append(c)
        per = max(1, n_quick // len(by_stmt))
        out = []
        for key, cs in by_stmt.items():
            rnd.shuffle(cs)
            out += cs[:per]
        return out
    return all_ctx
