"""Statement-with-a-hole contexts for the parser-level obligations of C01 / C05 (harness/h_stmt.py)."""
from __future__ import annotations

import random

CORPUS = [
    ("", "SELECT a, b + 1 AS c FROM t WHERE a > 1 AND b IN (1, 2) ORDER BY c DESC LIMIT 10"),
    ("", "SELECT x.a, COUNT(*) FROM x JOIN y ON x.b = y.b GROUP BY x.a HAVING COUNT(*) > 1"),
    ("", "WITH q AS (SELECT a FROM t) SELECT * FROM q UNION ALL SELECT b FROM u"),
    ("", "SELECT CASE WHEN a = 1 THEN 'x' ELSE 'y' END, CAST(b AS INT) FROM t"),
    ("", "SELECT a FROM t WHERE b BETWEEN 1 AND 2 OR NOT c IS NULL"),
    ("", "SELECT SUM(a) OVER (PARTITION BY b ORDER BY c) FROM t"),
    ("", "INSERT INTO t (a, b) VALUES (1, 'x')"),
    ("", "UPDATE t SET a = 1 WHERE b = 2"),
    ("", "CREATE TABLE t (a INT, b TEXT)"),
    ("", "SELECT a FROM (SELECT b AS a FROM u) AS s WHERE EXISTS (SELECT 1 FROM v)"),
    ("", "SELECT -a * (b - 1) / 2, a || 'x' FROM t"),
    ("", "DELETE FROM t WHERE a IN (SELECT b FROM u)"),
    ("mysql", "SELECT `a`, IF(b > 1, 'x', \"y\") FROM t LIMIT 1, 2"),
    ("postgres", "SELECT a::INT, b -> 'k' FROM t WHERE c ILIKE 'x%'"),
    ("bigquery", "SELECT a, STRUCT(b AS x) FROM `p.d.t` WHERE c IN UNNEST([1, 2])"),
    ("duckdb", "SELECT a, LIST(b) FROM t GROUP BY ALL QUALIFY ROW_NUMBER() OVER () = 1"),
    ("snowflake", "SELECT a:b::INT, IFF(c, 1, 2) FROM t SAMPLE (10)"),
    ("tsql", "SELECT TOP 1 [a], ISNULL(b, 0) FROM t WITH (NOLOCK)"),
]


def contexts(dialect: str, sql: str):
    """-> [(name, pre, post)]: a hole inserted before each token (with and without surrounding blanks) or replacing it."""
    import sqlglot

    toks = sqlglot.tokenize(sql, dialect=dialect or None)
    out = []
    for i, t in enumerate(toks):
        # one kind per token boundary, cycling, so that the full set stays small enough to be explored completely
        kind = ("ins", "rep", "glue")[i % 3]
        if kind == "ins":
            out.append((f"ins@{i}", sql[: t.start], " " + sql[t.start:]))
        elif kind == "glue":
            out.append((f"glue@{i}", sql[: t.start], sql[t.start:]))
        else:
            out.append((f"rep@{i}", sql[: t.start], sql[t.end + 1:]))
    out.append(("end", sql + " ", ""))
    return out


def select(tier: str, seed: int, n_quick: int):
    rnd = random.Random(seed)
    all_ctx = []
    for d, sql in CORPUS:
        for name, pre, post in contexts(d, sql):
            all_ctx.append((d, sql, name, pre, post))
    if tier == "quick":
        # every statement contributes; positions rotate with the seed
        by_stmt = {}
        for c in all_ctx:
            by_stmt.setdefault((c[0], c[1]), []).append(c)
        per = max(1, n_quick // len(by_stmt))
        out = []
        for key, cs in by_stmt.items():
            rnd.shuffle(cs)
            out += cs[:per]
        return out
    return all_ctx
