"""C02 (fragment) -- transpilation SQLite <-> DuckDB preserves query results (E2 relational translation validation with
two engine models whose parameters are measured from the installed engines at start-up)."""
from __future__ import annotations

import argparse
import json
import multiprocessing as mp
import os
import sys
import time

PROP = "C02"
PAIRS = [("sqlite", "duckdb"), ("duckdb", "sqlite"), ("sqlite", "sqlite"), ("duckdb", "duckdb")]
SEM = {"sqlite": {"bool_is_int": True, "dup_first": True}, "duckdb": {"bool_is_int": True}}  # values compared as integers (TRUE = 1) on both sides


def run_engine(engine: str, sql: str, data: dict):
    from engines.sqlsmt import bridge
    from engines.sqlsmt.oblig import SCHEMA

    return bridge.run_duckdb(sql, data, SCHEMA) if engine == "duckdb" else bridge.run_sqlite(sql, data, SCHEMA)


def measure_engines() -> dict:
    """Null placement of ORDER BY without NULLS FIRST|LAST on the installed engines vs what sqlglot's parser assumes."""
    import sqlglot

    out = {"ok": True, "engines": {}, "mismatches": []}
    data = {"x": [(None, 0), (1, 0), (2, 0)], "y": [], "z": []}
    for eng in ("sqlite", "duckdb"):
        res = {}
        for desc in (False, True):
            sql = "SELECT a FROM x ORDER BY a" + (" DESC" if desc else "")
            r = run_engine(eng, sql, data)
            first_is_null = r["rows"][0][0] is None
            assumed = bool(sqlglot.parse_one(sql, read=eng).args["order"].expressions[0].args.get("nulls_first"))
            res["desc" if desc else "asc"] = {"engine_nulls_first": first_is_null, "sqlglot_nulls_first": assumed}
            if first_is_null != assumed:
                out["ok"] = False
                out["mismatches"].append(f"{eng}: ORDER BY a{' DESC' if desc else ''}: engine puts NULLs {'first' if first_is_null else 'last'}, "
                                         f"sqlglot's {eng} parser assumes {'first' if assumed else 'last'}")
        b = run_engine(eng, "SELECT a > 1 AS v FROM x WHERE a = 2", data)
        res["boolean_result"] = repr(b["rows"][0][0])
        out["engines"][eng] = res
    return out


def work(item):
    fam, sql, src, dst, K, timeout_ms = item
    import sqlglot
    from sqlglot.errors import ErrorLevel
    from engines.sqlsmt.oblig import QueryPair
    from engines.sqlsmt.sem import Unsupported

    out = {"fam": fam, "sql": sql, "pair": f"{src}->{dst}", "skipped": None}
    # both texts must be accepted by their engines (on an empty database), otherwise the pair is outside the common fragment
    if not run_engine(src, sql, {})["ok"]:
        out["skipped"] = "source engine rejects the query"
        return out
    try:
        q = sqlglot.parse_one(sql, read=src)
        t = sqlglot.transpile(sql, read=src, write=dst, unsupported_level=ErrorLevel.RAISE)[0]
        tq = sqlglot.parse_one(t, read=dst)
    except Exception as e:
        out["skipped"] = "transpile: " + type(e).__name__
        return out
    out["target"] = t
    et = run_engine(dst, t, {})
    if not et["ok"]:
        out["rejected"] = et["error"]
        return out
    try:
        t0 = time.time()
        r = QueryPair(q, tq, K=K, timeout_ms=timeout_ms, sem_kw1=SEM[src], sem_kw2=SEM[dst]).decide()
        out["verdict"] = r["verdict"]
        out["ms"] = round((time.time() - t0) * 1000, 1)
        out["features"] = r.get("features")
        if r["verdict"] == "sat":
            out["data"] = r.get("data")
            out["reason"] = r.get("reason")
        n1, n2 = r["names"]
        bad = [k for k, (a, b) in enumerate(zip(n1, n2)) if a and b and a != b]
        if bad:
            out["names_differ"] = [n1, n2]
    except Unsupported as u:
        out["verdict"] = "unsupported"
        out["why"] = str(u)[:80]
    except Exception as ex:
        out["verdict"] = "error"
        out["why"] = type(ex).__name__ + ": " + str(ex)[:160]
    return out


def main(argv=None) -> int:
    ap = argparse.ArgumentParser()
    ap.add_argument("--tier", default=os.environ.get("VERIF_TIER", "quick"))
    ap.add_argument("--seed", type=int, default=int(os.environ.get("VERIF_SEED", "0") or 0))
    a = ap.parse_args(argv)
    t0 = time.time()
    from engines import kf as kfmod
    from engines.evidence import write_evidence
    from engines.sqlsmt import bridge, selftest
    from engines.sqlsmt.gen_transpile import programs
    from props.common import VERIF, repo_dirty, repo_head

    st = selftest.relational_selftest(n_db=6)
    if not st["ok"]:
        print("HARNESS-ERROR: relational self-test failed:", json.dumps(st["failures"][:3], default=str)[:1500])
        return 3
    engines = measure_engines()
    K = 2 if a.tier == "quick" else 3
    timeout_ms = 10000 if a.tier == "quick" else 30000
    common, lite_only, duck_only = programs(a.tier, a.seed)
    items = []
    for src, dst in PAIRS:
        progs = common + (lite_only if src == "sqlite" else duck_only)
        for fam, q in progs:
            items.append((fam, q, src, dst, K, timeout_ms))
    with mp.Pool(min(16, os.cpu_count() or 4)) as pool:
        results = pool.map(work, items, chunksize=4)
    findings = kfmod.load(PROP)
    open_f = [f for f in findings if f.get("status") == "open"]
    counts, skipped, unsupported = {}, {}, {}
    violations, spurious, samples = [], [], []
    kf_hits = {}
    decided = 0
    sat_checked = 0
    solver_s = 0.0

    def region(r):
        for f in open_f:
            m = f.get("match") or {}
            if m.get("pair") and m["pair"] != r["pair"]:
                continue
            if m.get("source_contains") and not all(s in r["sql"] for s in m["source_contains"]):
                continue
            if m.get("target_contains") and not all(s in r.get("target", "") for s in m["target_contains"]):
                continue
            if m.get("engine_error_contains") and m["engine_error_contains"] not in r.get("rejected", ""):
                continue
            return f["id"]
        return None

    if not engines["ok"]:
        for mm in engines["mismatches"]:
            violations.append({"program": "ORDER BY without NULLS FIRST|LAST", "pair": "-", "kind": "null-ordering-assumption", "detail": mm})
    for r in results:
        if r["skipped"]:
            skipped[r["skipped"]] = skipped.get(r["skipped"], 0) + 1
            continue
        if "rejected" in r:
            hit = region(r)
            if hit:
                kf_hits[hit] = kf_hits.get(hit, 0) + 1
            else:
                violations.append({"program": r["sql"], "pair": r["pair"], "target": r["target"], "kind": "target-engine-rejects",
                                   "detail": "the source engine accepts the query but the target engine rejects its transpilation: " + r["rejected"]})
            continue
        v = r["verdict"]
        counts[v] = counts.get(v, 0) + 1
        solver_s += r.get("ms", 0) / 1000
        if v == "unsupported":
            unsupported[r.get("why", "?")] = unsupported.get(r.get("why", "?"), 0) + 1
        if v in ("unsat", "sat"):
            decided += 1
        if v == "sat":
            hit = region(r)
            if hit:
                kf_hits[hit] = kf_hits.get(hit, 0) + 1
                continue
            if r.get("reason") == "arity":
                violations.append({"program": r["sql"], "pair": r["pair"], "target": r["target"], "kind": "arity"})
                continue
            src, dst = r["pair"].split("->")
            e1, e2 = run_engine(src, r["sql"], r["data"]), run_engine(dst, r["target"], r["data"])
            sat_checked += 1
            ordered = " ORDER BY " in r["sql"].rsplit(")", 1)[-1]
            if e1["ok"] and e2["ok"] and not bridge.same_rows(e1["rows"], e2["rows"], ordered):
                violations.append({"program": r["sql"], "pair": r["pair"], "target": r["target"], "data": r["data"],
                                   "engines": {"source_rows": e1["rows"][:10], "target_rows": e2["rows"][:10]}})
            else:
                spurious.append({"program": r["sql"], "pair": r["pair"], "target": r["target"], "data": r["data"],
                                 "source": e1.get("rows", e1.get("error")), "target_rows": e2.get("rows", e2.get("error"))})
        if len(samples) < 60 and v in ("unsat", "sat"):
            samples.append({"program": r["sql"], "pair": r["pair"], "target": r["target"], "verdict": v, "ms": r.get("ms")})
    kf_lines, kf_report = [], []
    for f in findings:
        w = f.get("witness")
        if not w:
            continue
        import sqlglot

        src, dst = w["pair"].split("->")
        t = sqlglot.transpile(w["sql"], read=src, write=dst)[0]
        e1, e2 = run_engine(src, w["sql"], w.get("data", {})), run_engine(dst, t, w.get("data", {}))
        fails = e1["ok"] and (not e2["ok"] or not bridge.same_rows(e1["rows"], e2["rows"], False))
        kf_report.append({"id": f["id"], "status": f["status"], "witness_fails": bool(fails), "programs_in_region": kf_hits.get(f["id"], 0)})
        if f["status"] == "open" and fails:
            kf_lines.append(f"KNOWN-FINDING: property={PROP} {f['id']}: {f['what']}")
        if f["status"] == "fixed" and fails:
            violations.append({"program": w["sql"], "pair": w["pair"], "target": t, "kind": "fixed-finding-regression:" + f["id"]})
    for line in kf_lines:
        print(line)
    if violations:
        rdir = os.path.join(VERIF, "replays", PROP)
        os.makedirs(rdir, exist_ok=True)
        for i, v in enumerate(violations[:25]):
            path = os.path.join(rdir, f"{a.tier}-{i}.json")
            json.dump({"property": PROP, "engine": "sqlsmt", **v}, open(path, "w"), indent=1, default=str)
            print(f"VIOLATION property={PROP} replay={path}")
            print(f"  {v.get('pair')} {v.get('program')!r} => {v.get('target')!r} data={v.get('data')} {v.get('engines', '')} {v.get('detail', '')}")
    errs = [(r["sql"], r["pair"], r["why"]) for r in results if r.get("verdict") == "error"]
    harness_errors = [f"{len(errs)} obligations hit an evaluator error: {errs[:5]}"] if errs else []
    coverage = {
        "programs": decided, "disagreements_checked": sat_checked, "samples": samples, "obligations": len(items), "verdict_counts": counts,
        "unsupported": dict(sorted(unsupported.items(), key=lambda kv: -kv[1])[:20]), "skipped_programs": skipped, "K": K,
        "engine_measurements": engines, "known_findings": kf_report, "spurious": spurious[:20], "solver_wall_s": round(solver_s, 1),
        "encoding_validation": {k: v for k, v in st.items() if k != "failures"},
        "functions_encoded": ["sqlglot.transpile(sql, read=src, write=dst) for the four pairs (real parser, transforms and generator, run concretely); "
                              "both texts are re-parsed by their own dialect before they are given a meaning"],
        "bounds": {"database": f"every database over x(a,b) y(b,c) z(b,c) with <= {K} rows per table, unbounded integers, NULLs",
                   "programs": "engines/sqlsmt/gen_transpile.py: expression parenthesisations, ORDER BY with/without NULLS FIRST|LAST + LIMIT/OFFSET, NULL-aware "
                               "functions, joins / grouping / DISTINCT / set operations / sub-queries / CTEs of the C03 family, SEMI/ANTI joins and IS DISTINCT FROM on "
                               "the DuckDB side, IFNULL/IIF/IS on the SQLite side",
                   "outside": "division, text and strftime formats, timestamps, QUALIFY / DISTINCT ON (window functions); engine integer overflow"},
        "repo_head": repo_head() + ("+dirty" if repo_dirty() else ""), "harness_errors": harness_errors,
    }
    write_evidence(PROP, a.tier, a.seed, "translation_validation", coverage,
                   ["z3 decides each obligation (10 s / 30 s cap)", "the evaluator is validated against DuckDB on every run; engine parameters (NULL placement, "
                    "boolean results) are measured from the installed sqlite3 / duckdb at start-up and compared with what sqlglot's parsers assume",
                    "a sat model is reported only if the source engine and the target engine return different rows on the model database"],
                   time.time() - t0, len(violations))
    print(f"[{PROP}] tier={a.tier} K={K} obligations={len(items)} decided={decided} {counts} skipped={sum(skipped.values())} known={kf_hits} "
          f"violations={len(violations)} spurious={len(spurious)} wall={time.time() - t0:.0f}s")
    if violations:
        return 1
    if harness_errors:
        print("HARNESS-ERROR:", harness_errors[0][:1200])
        return 3
    return 0


if __name__ == "__main__":
    sys.exit(main())
