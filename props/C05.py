"""C05 (tokenizer part) -- tokenize terminates within a polynomial step budget with a list or a TokenError (E1)."""
from __future__ import annotations

import argparse
import os
import sys

import json
import subprocess

from engines.xh.driver import run_e1
from engines.xh.runner import PY_PLAIN, VERIF
from props.C13 import tok_obligations, FUNCS, STUBS, ASSUME

PROP = "C05"


def stmt_obligations(tier: str, seed: int, mode: str):
    from engines.xh.runner import Obl
    from props import stmtctx

    obls = []
    ctxs = stmtctx.select(tier, seed, 30)
    if tier != "quick":
        # thorough: a seed-rotated third of all contexts (the whole set is explored by tools/stmt_sweep.py)
        ctxs = [c for i, c in enumerate(ctxs) if i % 3 == seed % 3]
    for d, sql, name, pre, post in ctxs:
        si = [c[1] for c in stmtctx.CORPUS].index(sql)
        key = f"stmt-{mode}:{d or 'base'}:{si}:{name}"
        obls.append(Obl(key=key, harness="h_stmt.py", params={"dialect": d, "pre": pre, "post": post, "minlen": 0, "maxlen": 1, "mode": mode},
                        cond_timeout=250 if tier == "quick" else 400, path_timeout=60, twin_timeout=90,
                        desc={"dialect": d or "base", "statement": sql, "sql": pre + "<h>" + post, "mode": mode}, group=key))
    return obls


def watchdog_probe(o, r):
    """Plain-interpreter search of the obligation's own bound under an alarm; only used to obtain a witness."""
    env = dict(os.environ, XH_PARAMS=json.dumps(o.params), PYTHONPATH=VERIF + ":" + os.environ.get("VERIF_REPO", "/repo"))
    try:
        p = subprocess.run(["timeout", "-k", "5", "120", PY_PLAIN, os.path.join(VERIF, "engines", "xh", "hang_probe.py"),
                            os.path.join(VERIF, "harness", o.harness), "6000", "3"], capture_output=True, text=True, env=env, cwd=VERIF)
    except Exception:
        return None
    for line in p.stdout.splitlines():
        if line.startswith("PROBE "):
            out = json.loads(line[6:])
            if out.get("witness"):
                return {"args": {"h": out["witness"]["h"]}, "why": out["witness"]["why"]}
    return None


def main(argv=None) -> int:
    ap = argparse.ArgumentParser()
    ap.add_argument("--tier", default=os.environ.get("VERIF_TIER", "quick"))
    ap.add_argument("--seed", type=int, default=int(os.environ.get("VERIF_SEED", "0") or 0))
    ap.add_argument("--only", default=None)
    a = ap.parse_args(argv)
    obls, bounds = tok_obligations(a.tier, a.seed, "term")
    obls += stmt_obligations(a.tier, a.seed, "errors")
    bounds["parser"] = ("statements of props/stmtctx.py CORPUS (core grammar + 6 dialect-specific ones) cut at a token boundary; the hole h (inserted "
                        "before a token, glued to it, or replacing it) ranges over the alphabet a 1 space , ( ) ' \" + - * / = < > . ; : | & ! % [ ] LF "
                        "with len(h) <= 1; the whole tokenize -> parse -> generate pipeline of that dialect runs symbolically")
    bounds["step_budget"] = "calls of TokenizerCore methods (_advance,_chars,_add,_scan*,_extract*) <= 64*(len(sql)+1)^2"
    bounds["outside"] += "; parser inputs other than one-character holes in the corpus statements; optimizer entry points"
    if a.only:
        obls = [o for o in obls if a.only in o.key]
    return run_e1(
        PROP, a.tier, a.seed, obls,
        functions_encoded=FUNCS,
        stubs=STUBS + ["TokenizerCore methods are wrapped by a call counter that raises when the step budget is exceeded"],
        assumptions=ASSUME + ["a loop that spins without calling any counted method would show as CrossHair path time-outs (inconclusive), not as a confirmation"],
        rule="one obligation per (tokenizer family representative, context template, hole length bound); assertion: tokenize returns "
             "a list or raises TokenError, nothing else, within the step budget. Non-trivial = Confirmed over all paths and twin reached.",
        bounds=bounds, inconclusive_probe=watchdog_probe,
    )


if __name__ == "__main__":
    sys.exit(main())
