"""C06 -- simplification and normal forms preserve SQL three-valued logic (E2 scalar translation validation)."""
from __future__ import annotations

import argparse
import json
import multiprocessing as mp
import os
import sys
import time

PROP = "C06"
TIMEOUT_MS = 5000

_STEPS: list = []
_WRAPPED = False


def _install_wrappers():
    """Wraps every Simplifier rule and the module-level rewrites by attribute replacement (no source hook): a call whose
    result differs from its argument records (rule, before, after)."""
    global _WRAPPED
    if _WRAPPED:
        return
    import sqlglot.optimizer.simplify as S
    from sqlglot import exp

    def snap(x):
        return x.copy() if isinstance(x, exp.Expr) else None

    def wrap(name, orig):
        def w(*args, **kw):
            node = args[1] if args and isinstance(args[0], S.Simplifier) else (args[0] if args else None)
            before = snap(node)
            res = orig(*args, **kw)
            if before is not None and isinstance(res, exp.Expr) and res != before:
                _STEPS.append((name, before, res.copy()))
            return res

        w.__name__ = getattr(orig, "__name__", name)
        return w

    for name in ("rewrite_between", "uniq_sort", "absorb_and_eliminate", "simplify_concat", "simplify_conditionals", "simplify_not",
                 "simplify_connectors", "remove_complements", "simplify_coalesce", "simplify_literals", "simplify_equality",
                 "simplify_datetrunc", "sort_comparison", "simplify_startswith"):
        if hasattr(S.Simplifier, name):
            setattr(S.Simplifier, name, wrap(name, getattr(S.Simplifier, name)))
    for name in ("propagate_constants", "flatten", "simplify_parens"):
        if hasattr(S, name):
            setattr(S, name, wrap(name, getattr(S, name)))
    import sqlglot.optimizer.normalize as N

    if hasattr(N, "flatten"):
        N.flatten = S.flatten
    _WRAPPED = True


def _is_literalish(e, exp):
    e = e.unnest() if hasattr(e, "unnest") else e
    return not isinstance(e, exp.Connector)


def in_normal_form(e, dnf: bool) -> bool:
    """Independent syntactic definition: CNF = no AND below an OR; DNF = no OR below an AND (parentheses ignored;
    only connectors reachable through connectors/parens/NOT-free positions count, i.e. the boolean skeleton)."""
    from sqlglot import exp

    outer, inner = (exp.Or, exp.And) if dnf else (exp.And, exp.Or)

    def skeleton_children(n):
        n = n.unnest()
        if isinstance(n, exp.Connector):
            return [n.left, n.right]
        return []

    def has(n, cls):
        n = n.unnest()
        if isinstance(n, cls):
            return True
        return any(has(c, cls) for c in skeleton_children(n))

    def ok(n):
        n = n.unnest()
        if isinstance(n, inner):
            # below the inner connector no outer connector may appear
            return not any(has(c, outer) for c in skeleton_children(n)) and all(ok(c) for c in skeleton_children(n))
        if isinstance(n, outer):
            return all(ok(c) for c in skeleton_children(n))
        return True

    return ok(e)


def _finding_region(rule: str, before, after, eqv) -> str | None:
    """Regions of the listed known findings (known_findings.json), as predicates over one rewrite step:
    C06-contradiction-to-false   rule simplify_connectors introduces the constant FALSE and the step is an equivalence
                                 once every column is assumed non-NULL (the input is NULL, not FALSE, for a NULL operand);
    C06-propagate-constants-null rule propagate_constants, equivalence once every column is assumed non-NULL."""
    from sqlglot import exp

    if rule == "simplify_connectors":
        def falses(e):
            return sum(1 for n in e.find_all(exp.Boolean) if not n.this and not isinstance(n.parent, exp.Is))
        if falses(after) <= falses(before):
            return None
        rid = "C06-contradiction-to-false"
    elif rule == "propagate_constants":
        rid = "C06-propagate-constants-null"
    else:
        return None
    try:
        r = eqv(before, after, assume_nonnull=True)
    except Exception:
        return None
    return rid if r["verdict"] == "unsat" else None


_TYPED_SCHEMA = {"t": {**{c: "INT" for c in "xyzabcdefghijklmnouvw"}, **{c: "BOOLEAN" for c in "pqrs"}}}


def _typed(tree):
    """-> the expression qualified against table t and type-annotated, or False when that is not possible."""
    import sqlglot
    from sqlglot import exp
    from sqlglot.optimizer.annotate_types import annotate_types
    from sqlglot.optimizer.qualify import qualify

    try:
        q = sqlglot.parse_one("SELECT 1 AS v FROM t")
        q.expressions[0].set("this", tree.copy())
        q = qualify(q, schema=_TYPED_SCHEMA, quote_identifiers=False, identify=False)
        q = annotate_types(q, schema=_TYPED_SCHEMA)
        e = q.expressions[0].this
        e.pop()
        return e
    except Exception:
        return False


def work(item):
    """One program: run the real simplify / normalize, decide every obligation with z3."""
    fam, sql, opts = item
    _install_wrappers()
    import sqlglot
    from sqlglot import exp
    from sqlglot.optimizer.normalize import normalize
    from sqlglot.optimizer.simplify import simplify
    from engines.sqlsmt.scalar import equiv
    from engines.sqlsmt.sem import Unsupported

    out = {"fam": fam, "sql": sql, "obligations": [], "skipped": None, "ms": 0}
    t0 = time.time()
    try:
        tree = sqlglot.parse_one(sql)
    except Exception as e:
        out["skipped"] = "parse: " + type(e).__name__
        return out
    if isinstance(tree, exp.Query) or tree.find(exp.Query):
        out["skipped"] = "query"
        return out

    def decide(kind, rule, e1, e2, extra=None):
        rec = {"kind": kind, "rule": rule, "before": e1.sql(), "after": e2.sql()}
        if extra:
            rec.update(extra)
        try:
            r = equiv(e1, e2, timeout_ms=TIMEOUT_MS)
            rec["verdict"] = r["verdict"]
            rec["ms"] = round(r["seconds"] * 1000, 1)
            if r["verdict"] == "sat":
                small = equiv(e1, e2, timeout_ms=TIMEOUT_MS, bound=1000)
                if small["verdict"] == "sat":
                    r = small
                rec["assignment"] = r["assignment"]
                rec["kinds"] = r.get("kinds")
                rec["region"] = _finding_region(rule, e1, e2, equiv)
        except Unsupported as u:
            rec["verdict"] = "unsupported"
            rec["why"] = str(u)[:80]
        except Exception as ex:  # evaluator bug: never a verdict
            rec["verdict"] = "error"
            rec["why"] = type(ex).__name__ + ": " + str(ex)[:120]
        out["obligations"].append(rec)
        return rec

    typed_tree = None
    for cfg in opts:
        label = cfg["label"]
        _STEPS.clear()
        base_tree = tree
        if cfg.get("typed"):
            # the typed variant: the expression as a projection over a table whose columns are declared (x.. INT, p.. BOOLEAN),
            # qualified and annotated before simplify runs (type-dependent rules: NOT NOT p -> p, no `AND TRUE` padding, ...)
            if typed_tree is None:
                typed_tree = _typed(tree)
            if typed_tree is False:
                continue
            base_tree = typed_tree
        try:
            res = simplify(base_tree.copy(), constant_propagation=cfg.get("cp", False), coalesce_simplification=cfg.get("cs", False),
                           dialect=cfg.get("dialect"))
        except Exception as ex:
            out["obligations"].append({"kind": "simplify", "rule": label, "before": sql, "after": None, "verdict": "raised",
                                       "why": type(ex).__name__ + ": " + str(ex)[:120]})
            continue
        steps = list(_STEPS)
        e2e = decide("simplify", label, base_tree, res)
        seen = set()
        for name, b, a in steps:
            key = (name, b.sql(), a.sql())
            if key in seen:
                continue
            seen.add(key)
            decide("step", name, b, a, {"cfg": label})
        if e2e.get("verdict") == "sat":
            failing = [o for o in out["obligations"] if o["kind"] == "step" and o.get("cfg") == label and o.get("verdict") == "sat"]
            e2e["failing_steps"] = [(o["rule"], o["before"], o["after"], o.get("region")) for o in failing]
            if failing and all(o.get("region") for o in failing):
                e2e["region"] = failing[0]["region"]
    for dnf in (False, True):
        _STEPS.clear()
        try:
            res = normalize(tree.copy(), dnf=dnf)
        except Exception as ex:
            out["obligations"].append({"kind": "normalize", "rule": "dnf" if dnf else "cnf", "before": sql, "after": None,
                                       "verdict": "raised", "why": type(ex).__name__ + ": " + str(ex)[:120]})
            continue
        rec = decide("normalize", "dnf" if dnf else "cnf", tree, res)
        nf = in_normal_form(res, dnf) or res == tree
        rec["normal_form"] = bool(nf)
    out["ms"] = round((time.time() - t0) * 1000, 1)
    return out


def configs():
    """Option / dialect-flag settings, with the dialects chosen by reading the flags from the classes at run time."""
    from sqlglot.dialects.dialect import Dialect, Dialects

    cfgs = [{"label": "default"}, {"label": "cp+cs", "cp": True, "cs": True}, {"label": "typed", "typed": True}, {"label": "typed+cp+cs", "typed": True, "cp": True, "cs": True}]
    want = {("SAFE_TO_ELIMINATE_DOUBLE_NEGATION", False): None, ("COALESCE_COMPARISON_NON_STANDARD", True): None}
    for d in Dialects:
        if not d.value:
            continue
        cls = Dialect.get_or_raise(d.value)
        for (flag, val) in list(want):
            if want[(flag, val)] is None and getattr(cls, flag) == val:
                want[(flag, val)] = d.value
    for (flag, val), d in want.items():
        if d:
            cfgs.append({"label": f"{flag}={val}[{d}]", "dialect": d, "cs": True})
    return cfgs


def replay_scalar(rec) -> dict:
    """DuckDB decides: reported only if DuckDB says the two expressions differ under the model assignment."""
    import sqlglot
    from engines.sqlsmt.scalar import duckdb_distinct

    try:
        s1 = sqlglot.parse_one(rec["before"]).sql("duckdb")
        s2 = sqlglot.parse_one(rec["after"]).sql("duckdb")
    except Exception as e:
        return {"ok": False, "error": "transpile: " + str(e)[:100]}
    return duckdb_distinct(s1, s2, rec["assignment"], rec.get("kinds") or {})


def main(argv=None) -> int:
    ap = argparse.ArgumentParser()
    ap.add_argument("--tier", default=os.environ.get("VERIF_TIER", "quick"))
    ap.add_argument("--seed", type=int, default=int(os.environ.get("VERIF_SEED", "0") or 0))
    ap.add_argument("--limit", type=int, default=0)
    a = ap.parse_args(argv)
    t0 = time.time()
    from engines import kf as kfmod
    from engines.evidence import write_evidence
    from engines.sqlsmt.gen_scalar import programs
    from engines.sqlsmt import selftest
    from props.common import repo_head, repo_dirty, VERIF

    st = selftest.scalar_selftest()
    if not st["ok"]:
        print("HARNESS-ERROR: scalar self-test failed:", st)
        return 3
    progs = programs(a.tier, a.seed)
    if a.limit:
        progs = progs[: a.limit]
    cfgs = configs()
    items = [(fam, s, cfgs) for fam, s in progs]
    with mp.Pool(min(16, os.cpu_count() or 4)) as pool:
        results = pool.map(work, items, chunksize=8)

    findings = kfmod.load(PROP)
    open_regions = {f["id"]: f for f in findings if f.get("status") == "open"}
    counts = {}
    solver_s = 0.0
    programs_decided = 0
    unsupported = {}
    violations = []
    kf_hits = {}
    sat_checked = 0
    spurious = []
    samples = []
    nf_fail = []
    raised = []
    for r in results:
        if r["skipped"]:
            counts["skipped-program"] = counts.get("skipped-program", 0) + 1
            continue
        decided = True
        for o in r["obligations"]:
            v = o["verdict"]
            counts[v] = counts.get(v, 0) + 1
            solver_s += o.get("ms", 0) / 1000.0
            if v in ("unsupported", "unknown", "error", "kind-mismatch"):
                decided = False
                if v == "unsupported":
                    unsupported[o.get("why", "?")] = unsupported.get(o.get("why", "?"), 0) + 1
            if v == "raised":
                raised.append(o)
            if o.get("kind") == "normalize" and v in ("unsat", "sat") and not o.get("normal_form", True):
                nf_fail.append(o)
            if v == "sat":
                region = o.get("region")
                if region and region in open_regions:
                    kf_hits[region] = kf_hits.get(region, 0) + 1
                    continue
                rp = replay_scalar(o)
                sat_checked += 1
                if rp.get("ok") and rp.get("differs"):
                    violations.append({"program": r["sql"], **{k: o.get(k) for k in ("kind", "rule", "before", "after", "assignment", "failing_steps")},
                                       "duckdb": {"v1": rp["v1"], "v2": rp["v2"], "sql": rp["sql"]}})
                else:
                    spurious.append({"program": r["sql"], "obligation": {k: o.get(k) for k in ("kind", "rule", "before", "after", "assignment")}, "replay": rp})
        if decided and r["obligations"]:
            programs_decided += 1
        if len(samples) < 60 and r["obligations"]:
            o = r["obligations"][0]
            samples.append({"program": r["sql"], "family": r["fam"], "rule": o["rule"], "after": o.get("after"), "verdict": o["verdict"], "ms": o.get("ms")})
    # normal-form failures are structural violations of C06's last clause
    for o in nf_fail:
        violations.append({"program": o["before"], "kind": "normal-form", "rule": o["rule"], "before": o["before"], "after": o["after"],
                           "detail": "normalize returned an expression that is neither in the requested normal form nor the input"})
    # known findings: witnesses
    kf_lines = []
    kf_report = []
    for f in findings:
        w = f.get("witness")
        if not w:
            continue
        import sqlglot
        from sqlglot.optimizer.simplify import simplify
        from engines.sqlsmt.scalar import equiv

        e = sqlglot.parse_one(w["sql"])
        out = simplify(e.copy(), constant_propagation=bool(w.get("cp")), coalesce_simplification=bool(w.get("cs")))
        r = equiv(e, out)
        fails = r["verdict"] == "sat"
        if fails:
            rp = replay_scalar({"before": e.sql(), "after": out.sql(), "assignment": r["assignment"], "kinds": r.get("kinds")})
            fails = bool(rp.get("ok") and rp.get("differs"))
        kf_report.append({"id": f["id"], "status": f["status"], "witness_fails": fails, "programs_in_region": kf_hits.get(f["id"], 0)})
        if f["status"] == "open" and fails:
            kf_lines.append(f"KNOWN-FINDING: property={PROP} {f['id']}: {f['what']}")
        if f["status"] == "fixed" and fails:
            violations.append({"program": w["sql"], "kind": "fixed-finding-regression", "rule": f["id"], "before": e.sql(), "after": out.sql(),
                               "assignment": r["assignment"]})
    for line in kf_lines:
        print(line)
    if violations:
        rdir = os.path.join(VERIF, "replays", PROP)
        os.makedirs(rdir, exist_ok=True)
        seen = set()
        n = 0
        for v in violations:
            key = (v.get("rule"), v.get("before"), v.get("after"))
            if key in seen:
                continue
            seen.add(key)
            path = os.path.join(rdir, f"{a.tier}-{n}.json")
            json.dump({"property": PROP, "engine": "sqlsmt", **v}, open(path, "w"), indent=1, default=str)
            print(f"VIOLATION property={PROP} replay={path}")
            print(f"  rule={v.get('rule')} {v.get('before')!r} => {v.get('after')!r} under {v.get('assignment')}")
            n += 1
            if n >= 25:
                break
    harness_errors = []
    if counts.get("error", 0):
        errs = [o for r in results for o in r["obligations"] if o["verdict"] == "error"][:5]
        harness_errors.append(f"{counts['error']} obligations hit an evaluator error: {errs}")
    coverage = {
        "programs": programs_decided,
        "disagreements_checked": sat_checked,
        "samples": samples,
        "obligations": sum(len(r["obligations"]) for r in results),
        "verdict_counts": counts,
        "unsat": counts.get("unsat", 0), "sat": counts.get("sat", 0), "unknown": counts.get("unknown", 0),
        "unsupported": dict(sorted(unsupported.items(), key=lambda kv: -kv[1])[:25]),
        "programs_generated": len(progs),
        "configs": [c["label"] for c in cfgs],
        "known_findings": kf_report,
        "spurious": spurious[:20],
        "raised": raised[:10],
        "solver_wall_s": round(solver_s, 1),
        "encoding_validation": st,
        "functions_encoded": ["sqlglot.optimizer.simplify.simplify + every Simplifier rule (wrapped, step obligations)",
                              "sqlglot.optimizer.normalize.normalize (CNF, DNF)"],
        "bounds": {"columns": "x y z .. unbounded integers, p q r booleans, each possibly NULL (all assignments, decided by z3)",
                   "programs": "bounded grammar (see engines/sqlsmt/gen_scalar.py) + every input of simplify.sql / normalize.sql in the fragment",
                   "outside": "dates/intervals, strings/CONCAT, division, floats, constants outside {-1,0,1,2} except fixtures"},
        "repo_head": repo_head() + ("+dirty" if repo_dirty() else ""),
        "harness_errors": harness_errors,
    }
    write_evidence(PROP, a.tier, a.seed, "translation_validation", coverage,
                   ["z3 5.1 decides each obligation (5 s cap; unknown is inconclusive)",
                    "the evaluator (engines/sqlsmt/sem.py) is validated against DuckDB on every run (encoding_validation)",
                    "a sat model is reported only if DuckDB evaluates the two expressions to distinct values under it",
                    "integers are mathematical; engine overflow is outside the claim"],
                   time.time() - t0, len(violations))
    print(f"[{PROP}] tier={a.tier} programs={len(progs)} decided={programs_decided} {counts} known={kf_hits} violations={len(violations)} "
          f"spurious={len(spurious)} wall={time.time() - t0:.0f}s")
    if violations:
        return 1
    if harness_errors:
        print("HARNESS-ERROR:", harness_errors[0][:1500])
        return 3
    return 0


if __name__ == "__main__":
    sys.exit(main())
